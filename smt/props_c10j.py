"""C10 (Engine-Z part, JUMBF box readers) -- untrusted input never crashes: sdk/src/jumbf/boxes.rs
BoxReader::read_desc_box (the description box every JUMBF super box starts with; Kani did not finish on it, DESIGN 3),
BoxReader::read_json_box, ::read_cbor_box, ::read_header, unread_bytes; sdk/src/utils/io_utils.rs read_to_vec.
Every byte string up to the bound, every start position and EVERY declared size (u64) is symbolic; the obligations are the
interpreter's panic obligations (unsigned under/overflow of `bytes_left`, slice/index range, unwrap) plus unwinding.
The box value constructors (JUMBFDescriptionBox::from/new, CAISaltContentBox::new, ...::new) only store their arguments:
they are replaced by opaque values (CString/hex conversions are outside the parser's control flow).
"""
import z3

import bstr
from bstr import bv, b8, ult, ule, ugt, uge
from symex import VStr, VInt, VBool, VStruct, VEnum, VUnit, none, some, is_ok, ok, TAG
import models_stream as ms

BOXES = "/repo/sdk/src/jumbf/boxes.rs"
FILES = [BOXES, "/repo/sdk/src/utils/io_utils.rs"]


def caps(tier):
    return dict(data=40, super=72) if tier == "quick" else dict(data=64, super=90)


def _opaque(name):
    return lambda I, a, pc: VStruct(name, {})


def _try_into(I, args, pc):
    return ok(args[0])


OVERRIDES = dict(ms.OVERRIDES)
OVERRIDES.update(ms.WRITE_OVERRIDES)
OVERRIDES.update({
    "BoxType::from": lambda I, a, pc: a[0],
    "JUMBFDescriptionBox::new": _opaque("JUMBFDescriptionBox"), "JUMBFDescriptionBox::from": _opaque("JUMBFDescriptionBox"),
    "CAISaltContentBox::new": _opaque("CAISaltContentBox"), "JUMBFJSONContentBox::new": _opaque("JUMBFJSONContentBox"),
    "JUMBFCBORContentBox::new": _opaque("JUMBFCBORContentBox"),
    "Vec::with_capacity": lambda I, a, pc: VStr(bstr.lit("")),
    "JUMBFSuperBox::from": _opaque("JUMBFSuperBox"), "JUMBFSuperBox::add_data_box": lambda I, a, pc: VUnit(),
    "Box::new": lambda I, a, pc: VStruct("BoxDyn", {}),
    "JUMBFPaddingContentBox::new": _opaque("JUMBFPaddingContentBox"), "JUMBFPaddingContentBox::new_with_vec": _opaque("JUMBFPaddingContentBox"),
    "JUMBFCodestreamContentBox::new": _opaque("JUMBFCodestreamContentBox"), "JUMBFCompressedContentBox::new": _opaque("JUMBFCompressedContentBox"),
    "JUMBFUUIDContentBox::new": _opaque("JUMBFUUIDContentBox"), "JUMBFEmbeddedFileDescriptionBox::from": _opaque("JUMBFEmbeddedFileDescriptionBox"), "JUMBFEmbeddedFileDescriptionBox::new": _opaque("JUMBFEmbeddedFileDescriptionBox"),
    "JUMBFEmbeddedFileContentBox::new": _opaque("JUMBFEmbeddedFileContentBox"),
})


def LITS():
    import re
    out = ms.boxtype_consts(BOXES)
    # associated consts of `impl BoxReader` (read from the source on every run)
    for m in re.finditer(r"^\s*const\s+(MAX_JUMB_DEPTH)\s*:\s*usize\s*=\s*(\d+)\s*;", open(BOXES, errors="replace").read(), re.M):
        out[m.group(1)] = VInt(int(m.group(2)))
    return out


def make_queries(tier):
    C = caps(tier)

    def q_jumbf_desc_box(E):
        """BoxReader::read_desc_box on every stream, start position and declared size: no panic"""
        d = E.str("data", C["data"], "bytes")
        pos = E.int("start", C["data"] + 2)
        size = E.int("size")
        if E.mode != "symbolic":
            E.native("jumbf_desc_box", [_j(d), _j(pos), _j(size)])
            return
        I = E.I
        I.loop_bound = C["data"] + 2
        I.buffer_cap = C["data"]
        r = E.call("BoxReader::read_desc_box", ms.stream(d, pos), size)
        E.cover("accepted description box with label, id and signature", z3.And(is_ok(r), uge(size.e, bv(26 + 4 + 32))))
        E.cover("accepted description box with a private salt box", z3.And(is_ok(r), (bstr.at(d.e, pos.e + bv(16)) & b8(0x10)) == b8(0x10)))
        E.cover("rejected", z3.Not(is_ok(r)))

    def q_jumbf_content_boxes(E):
        """BoxReader::read_json_box / read_cbor_box / read_header on every stream, position and declared size: no panic"""
        d = E.str("data", C["data"], "bytes")
        pos = E.int("start", C["data"] + 2)
        size = E.int("size")
        if E.mode != "symbolic":
            E.native("jumbf_content_boxes", [_j(d), _j(pos), _j(size)])
            return
        I = E.I
        I.loop_bound = 6
        I.buffer_cap = C["data"]
        r1 = E.call("BoxReader::read_json_box", ms.stream(d, pos), size)
        r2 = E.call("BoxReader::read_cbor_box", ms.stream(d, pos), size)
        E.call("BoxReader::read_header", ms.stream(d, pos))
        E.cover("json box accepted", is_ok(r1))
        E.cover("cbor box rejected", z3.Not(is_ok(r2)))

    def q_jumbf_super_box(E):
        """BoxReader::read_super_box (nested super boxes, every content box kind) on every stream and start position: no panic"""
        d = E.str("data", C["super"], "bytes")
        pos = E.int("start", 4)
        if E.mode != "symbolic":
            E.native("jumbf_super_box", [_j(d), _j(pos)])
            return
        I = E.I
        I.loop_bound = 6          # label bytes / boxes per level
        I.recursion_bound = 3     # nesting levels explored (the routine's own limit is MAX_JUMB_DEPTH = 32)
        I.buffer_cap = C["super"]
        # the description box keeps its label (read_super_box_impl asks whether it is empty)
        I.overrides["JUMBFDescriptionBox::from"] = lambda I_, a, pc: VStruct("JUMBFDescriptionBox", {"label": a[2]})
        I.overrides["JUMBFDescriptionBox::new"] = lambda I_, a, pc: VStruct("JUMBFDescriptionBox", {"label": VStr(bstr.lit(""))})
        I.overrides["JUMBFDescriptionBox::label"] = lambda I_, a, pc: a[0].fields["label"]
        r = E.call("BoxReader::read_super_box", ms.stream(d, pos))
        E.cover("a super box with a nested super box accepted", z3.And(is_ok(r), uge(d.e.n, bv(60))))
        E.cover("rejected", z3.Not(is_ok(r)))

    # q_jumbf_super_box is not run: the nested reader did not finish symbolic execution within 20 min (recursion x nine box kinds)
    return [q_jumbf_desc_box, q_jumbf_content_boxes]


def _j(v):
    import symex
    return symex.concrete(v)


def _comp_desc(I, args):
    data, pos, size = I.raw_args
    I.loop_bound = 70
    I.buffer_cap = 64
    r = I.call("BoxReader::read_desc_box", [ms.stream(VStr(bstr.lit(data.encode("latin-1"))), pos), VInt(size)])
    return VStruct("?", {"ok": VBool(z3.simplify(is_ok(r)))})


def _comp_content(I, args):
    data, pos, size = I.raw_args
    I.loop_bound = 6
    I.buffer_cap = 64
    mk = lambda: ms.stream(VStr(bstr.lit(data.encode("latin-1"))), pos)
    return VStruct("?", {"json": VBool(z3.simplify(is_ok(I.call("BoxReader::read_json_box", [mk(), VInt(size)])))),
                         "cbor": VBool(z3.simplify(is_ok(I.call("BoxReader::read_cbor_box", [mk(), VInt(size)])))),
                         "header": VBool(z3.simplify(is_ok(I.call("BoxReader::read_header", [mk()]))))})


def _b(x):
    return bytes(x).decode("latin-1")


def _desc(toggles, label=b"c2pa", box_id=None, sig=None, salt=None):
    out = bytes(range(16)) + bytes([toggles]) + label + b"\x00"
    if box_id is not None:
        out += box_id.to_bytes(4, "big")
    if sig is not None:
        out += sig
    if salt is not None:
        out += (8 + len(salt)).to_bytes(4, "big") + b"c2sh" + salt
    return out


_D1 = _desc(0x03)
_D2 = _desc(0x07, box_id=7)
_D3 = _desc(0x0f, box_id=1, sig=bytes(32))
_D4 = _desc(0x13, salt=bytes(16))
COMPOSITES = {"@desc": (_comp_desc, "jumbf_desc_box", None), "@content": (_comp_content, "jumbf_content_boxes", None)}
VECTORS = ([("@desc", [_b(d), 0, 8 + len(d)]) for d in (_D1, _D2, _D3, _D4)] +
           [("@desc", [_b(_D1), 0, 8 + len(_D1) + 1]), ("@desc", [_b(_D1), 0, 25]), ("@desc", [_b(_D1), 0, 2 ** 64 - 1]), ("@desc", [_b(_D2[:20]), 0, 28]),
            ("@desc", [_b(_desc(0x01)), 0, 30]), ("@desc", [_b(b"xx" + _D4), 2, 8 + len(_D4)]), ("@desc", ["", 0, 40]),
            ("@desc", [_b(_desc(0x13, salt=bytes(4))[:-2]), 0, 8 + len(_desc(0x13, salt=bytes(4)))]),
            ("@content", [_b((12).to_bytes(4, "big") + b"json" + b"{}{}"), 0, 12]), ("@content", [_b(b"{}{}"), 0, 12]),
            ("@content", [_b((1).to_bytes(4, "big") + b"cbor" + (2 ** 63).to_bytes(8, "big")), 0, 2 ** 63]), ("@content", ["", 0, 9]),
            ("@content", [_b((12).to_bytes(4, "big") + b"json" + b"{}"), 0, 12]), ("@content", [_b(bytes(3)), 1, 5])])
NATIVE_MAP = {}

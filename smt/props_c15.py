"""C15 (kernel) -- embeddable signing returns bytes of exactly the placeholder size.
Source executed symbolically: sdk/src/builder.rs Builder::sign_embeddable -- the step that brings the signed
JUMBF to the length recorded by Builder::placeholder (placeholder_jumbf_len) before it is composed for the format.

Everything around that step is environment and is replaced by unconstrained stubs (each may also fail):
find_assertion (three symbolic answers), to_store, context().signer(), dynamic_assertions (empty or not),
add_dynamic_assertion_placeholders, and Store::sign_manifest, which returns a signed JUMBF of ARBITRARY
length L -- smaller than, equal to or larger than the recorded placeholder length P (the manifest can grow after
the placeholder was handed out: assertions added, Merkle leaves, a larger signature).  Byte vectors are
length-only (props_c14).  Store::get_composed_manifest records the length it is given; composing depends on
that length only (assumption, stated in evidence), so equal JUMBF lengths give equal composed lengths.

Decided for all L, P and stub outcomes: if the call returns Ok and a placeholder length was recorded, the JUMBF
handed to the composer has EXACTLY that length (never longer, never shorter) for every non-BMFF format -- the
property is about data-hash formats; for BMFF the SDK documents that the caller reserves extra room for Merkle
leaves, and only "never shorter" is required there; no panic.
Replay: the real Builder through the public API (placeholder -> grow the manifest by an assertion -> sign_embeddable).
"""
import z3

import bstr
from bstr import bv, b8, ult, ule, ugt, uge
from symex import VStr, VInt, VBool, VStruct, VVec, VEnum, VUnit, Effects, none, some, opt, is_some, is_ok, ok, err, TAG, Unsupported
import props_c14 as B

FILES = ["/repo/sdk/src/builder.rs"]


def caps(tier):
    return dict(maxlen=2 ** 24) if tier == "quick" else dict(maxlen=2 ** 40)


def _bad():
    return VEnum("Error", TAG("Error", "Stub"), {})


def _res(flag, val):
    return VEnum("Result", z3.If(flag, TAG("Result", "Ok"), TAG("Result", "Err")), {"Ok": [val], "Err": [_bad()]})


OVERRIDES = {
    "vec_repeat": B._vec_repeat,
    "Bytes::len": B._bytes_len, "Bytes::resize": B._bytes_resize, "Bytes::truncate": B._bytes_truncate, "Bytes::is_empty": lambda I, a, pc: VBool(a[0].fields["n"].e == bv(0)),
    "Bytes::extend": B._bytes_extend, "Bytes::extend_from_slice": B._bytes_extend, "Bytes::clone": lambda I, a, pc: a[0],
    "Error::BadParam": lambda I, a, pc: VEnum("Error", TAG("Error", "BadParam"), {}),
    "Vec::new": lambda I, a, pc: B.Bytes(0),
}


def make_queries(tier):
    C = caps(tier)

    def q_sign_embeddable_matches_placeholder(E):
        """Builder::sign_embeddable: the JUMBF handed to the composer has exactly the recorded placeholder length, or the call fails"""
        P = E.int("placeholder_len", C["maxlen"])
        L = E.int("signed_len", C["maxlen"])
        has_ph = E.bool("placeholder_recorded")
        fmt = E.str("format", 12, "printable", min_len=1)
        if E.mode != "symbolic":
            return replay_scenarios(E, ["an Ok result has exactly the placeholder's length", "an Ok result is never shorter than the placeholder (any format)"])
        I = E.I
        flags = {n: E.bool(n) for n in ("format_is_bmff", "has_data_hash", "has_bmff_hash", "has_box_hash", "to_store_ok", "signer_ok", "dynamic_assertions_present",
                                        "add_placeholders_ok", "sign_ok", "compose_ok")}
        order = []
        composed_in = []

        def find_assertion(I_, args, pc):
            k = len(order)
            order.append(k)
            f = [flags["has_data_hash"], flags["has_bmff_hash"], flags["has_box_hash"]][min(k, 2)]
            return _res(f.e, VStruct("Assertion", {}))

        def compose(I_, args, pc):
            composed_in.append((pc, args[0].fields["n"].e))
            return _res(flags["compose_ok"].e, B.Bytes(args[0].fields["n"]))
        for name, fn in (("Builder::find_assertion", find_assertion),
                         ("Builder::to_store", lambda I_, a, pc: _res(flags["to_store_ok"].e, VStruct("Store", {}))),
                         ("Builder::context", lambda I_, a, pc: VStruct("Context", {})),
                         ("Context::signer", lambda I_, a, pc: _res(flags["signer_ok"].e, VStruct("Signer", {}))),
                         ("Signer::dynamic_assertions", lambda I_, a, pc: VVec([VStruct("DynamicAssertion", {})], z3.If(flags["dynamic_assertions_present"].e, bv(1), bv(0)))),
                         ("Store::add_dynamic_assertion_placeholders", lambda I_, a, pc: _res(flags["add_placeholders_ok"].e, VUnit())),
                         ("Store::sign_manifest", lambda I_, a, pc: _res(flags["sign_ok"].e, B.Bytes(L))),
                         ("is_bmff_format", lambda I_, a, pc: flags["format_is_bmff"]),
                         ("Store::get_composed_manifest", compose)):
            I.overrides[name] = fn
        builder = VStruct("Builder", {"placeholder_jumbf_len": opt(has_ph.e, P)})
        r = E.call("Builder::sign_embeddable", builder, fmt)
        good = is_ok(r)
        exact = z3.And([z3.Implies(g, n == P.e) for g, n in composed_in]) if composed_in else z3.BoolVal(True)
        reached = z3.Or([g for g, _ in composed_in]) if composed_in else z3.BoolVal(False)
        not_shorter = z3.And([z3.Implies(g, uge(n, P.e)) for g, n in composed_in]) if composed_in else z3.BoolVal(True)
        E.prove("an Ok result has exactly the placeholder's length", z3.Implies(z3.And(good, has_ph.e, z3.Not(flags["format_is_bmff"].e)), z3.And(reached, exact)))
        E.prove("an Ok result is never shorter than the placeholder (any format)", z3.Implies(z3.And(good, has_ph.e), z3.And(reached, not_shorter)))
        E.prove("without a hard binding and without a placeholder the call is refused",
                z3.Implies(z3.And(z3.Not(has_ph.e), z3.Not(flags["has_data_hash"].e), z3.Not(flags["has_bmff_hash"].e), z3.Not(flags["has_box_hash"].e)), z3.Not(good)))
        E.cover("signed JUMBF shorter than the placeholder is padded", z3.And(good, has_ph.e, ult(L.e, P.e)))
        E.cover("mode without placeholder succeeds", z3.And(good, z3.Not(has_ph.e)))
        E.cover("a failing stub propagates", z3.And(z3.Not(good), has_ph.e, z3.Not(flags["sign_ok"].e)))

    def q_placeholder_records_composed_length(E):
        """Builder::placeholder: the length it records for sign_embeddable is the length of the JUMBF it composes and hands out"""
        if E.mode != "symbolic":
            return replay_scenarios(E, ["the recorded placeholder length is the length of the composed JUMBF"])
        I = E.I
        I.loop_bound = 12
        flags = {n: E.bool(n) for n in ("format_is_bmff", "needs_placeholder", "has_data_hash", "has_bmff_hash", "has_box_hash", "to_store_ok", "add_assertion_ok",
                                        "hash_ok", "get_placeholder_ok", "compose_ok", "had_older_placeholder")}
        PL = E.int("placeholder_jumbf_len", C["maxlen"])
        OLD = E.int("older_len", C["maxlen"])
        order = []
        composed_in = []

        def find_assertion(I_, args, pc):
            k = len(order)
            order.append(k)
            f = [flags["has_data_hash"], flags["has_bmff_hash"], flags["has_box_hash"]][min(k, 2)]
            return _res(f.e, VStruct("Assertion", {}))

        def compose(I_, args, pc):
            composed_in.append((pc, args[0].fields["n"].e))
            return _res(flags["compose_ok"].e, B.Bytes(args[0].fields["n"]))
        opaque = lambda name: (lambda I_, a, pc: VStruct(name, {}))
        okunit = lambda flag: (lambda I_, a, pc: _res(flags[flag].e, VUnit()))
        for name, fn in (("Builder::find_assertion", find_assertion),
                         ("is_bmff_format", lambda I_, a, pc: flags["format_is_bmff"]),
                         ("Builder::needs_placeholder", lambda I_, a, pc: flags["needs_placeholder"]),
                         ("BmffHash::new", opaque("BmffHash")), ("BmffHash::set_default_exclusions", lambda I_, a, pc: VUnit()),
                         ("BmffHash::add_place_holder_hash", okunit("hash_ok")),
                         ("BmffHash::to_assertion", lambda I_, a, pc: ok(VStruct("Assertion", {}))), ("Assertion::label", lambda I_, a, pc: VStr(bstr.lit("c2pa.hash.bmff.v3"))),
                         ("DataHash::new", opaque("DataHash")), ("DataHash::add_exclusion", lambda I_, a, pc: VUnit()), ("HashRange::new", opaque("HashRange")),
                         ("DataHash::gen_hash_from_stream", okunit("hash_ok")), ("Cursor::new", opaque("Cursor")),
                         ("Builder::add_assertion", lambda I_, a, pc: _res(flags["add_assertion_ok"].e, VStruct("BuilderRef", {}))),
                         ("Builder::to_store", lambda I_, a, pc: _res(flags["to_store_ok"].e, VStruct("Store", {}))),
                         ("Builder::context", lambda I_, a, pc: VStruct("Context", {})),
                         ("Store::get_placeholder", lambda I_, a, pc: _res(flags["get_placeholder_ok"].e, B.Bytes(PL))),
                         ("Store::get_composed_manifest", compose)):
            I.overrides[name] = fn
        builder = VStruct("Builder", {"placeholder_jumbf_len": opt(flags["had_older_placeholder"].e, OLD),
                                      "definition": VStruct("ManifestDefinition", {"hash_alg": opt(E.bool("alg_given").e, VStr(bstr.lit("sha384")))}),
                                      "bmff_hasher": VStruct("BmffHasher", {"alg": VStr(bstr.lit("sha256"))})})
        env = {"b": builder, "fmt": VStr(bstr.lit("image/jpeg"))}
        ast = {"k": "mcall", "line": 0, "recv": {"k": "path", "path": "b"}, "method": "placeholder", "turbofish": None, "args": [{"k": "path", "path": "fmt"}]}
        import symex
        I.frames.append(symex.Frame("<driver>"))
        try:
            r, env2, _ = I.eval(ast, env, z3.BoolVal(True))
        finally:
            I.frames.pop()
        b2 = env2["b"]
        good = is_ok(r)
        out = r.payload["Ok"][0]
        out_n = out.fields["n"].e if isinstance(out, VStruct) and "n" in out.fields else bv(0)
        rec = b2.fields["placeholder_jumbf_len"]
        rec_n = rec.payload["Some"][0].e
        nonempty = z3.And(good, out_n != bv(0))
        E.prove("the recorded placeholder length is the length of the composed JUMBF",
                z3.Implies(nonempty, z3.And(is_some(rec), z3.Or([z3.And(g, n == rec_n) for g, n in composed_in] or [z3.BoolVal(False)]))))
        E.prove("more than one hard-binding assertion is refused",
                z3.Implies(z3.Or(z3.And(flags["has_data_hash"].e, flags["has_bmff_hash"].e), z3.And(flags["has_data_hash"].e, flags["has_box_hash"].e),
                                 z3.And(flags["has_bmff_hash"].e, flags["has_box_hash"].e)), z3.Not(good)))
        E.cover("placeholder handed out for a data-hash format", z3.And(nonempty, z3.Not(flags["format_is_bmff"].e)))
        E.cover("no placeholder needed (box hash preferred)", z3.And(good, out_n == bv(0)))
        E.cover("an older recorded length is replaced", z3.And(nonempty, flags["had_older_placeholder"].e, OLD.e != PL.e))

    return [q_sign_embeddable_matches_placeholder, q_placeholder_records_composed_length]


def replay_scenarios(E, labels):
    """The model's counterexample fixes lengths and stub outcomes that cannot be dictated to the real pipeline, so the replay runs the
    real Builder through the public API over a family of placeholder-workflow scenarios (exclusion layouts of every CBOR width class, a
    grown manifest, placeholder() called twice) for the counterexample's format (and image/jpeg): the violation is reproduced when some
    scenario returns Ok with a length different from the placeholder handed out last."""
    mi = E.model_inputs
    fmts = []
    f = mi.get("format")
    if isinstance(f, str) and f.isascii() and f.strip() and "/" in f:
        fmts.append(f.strip())
    for dflt in ("image/jpeg", "image/tiff", "image/png"):
        if dflt not in fmts:
            fmts.append(dflt)
    bad = []
    for fm in fmts:
        r = E.native("embeddable_scenarios", [fm])
        bad += [dict(m, format=fm) for m in r["mismatches"]]
    for lb in labels:
        E.prove(lb, z3.BoolVal(not bad))


def _comp_embeddable(I, args):
    """the model's prediction for the public-API scenario: every step succeeds, the signed JUMBF is `grow` bytes longer than the placeholder"""
    grow = I.raw_args[0]
    P = 6000
    composed = []
    T = z3.BoolVal(True)
    for name, fn in (("Builder::find_assertion", lambda I_, a, pc: _res(T, VStruct("Assertion", {}))),
                     ("Builder::to_store", lambda I_, a, pc: _res(T, VStruct("Store", {}))),
                     ("Builder::context", lambda I_, a, pc: VStruct("Context", {})),
                     ("Context::signer", lambda I_, a, pc: _res(T, VStruct("Signer", {}))),
                     ("Signer::dynamic_assertions", lambda I_, a, pc: VVec([])),
                     ("Store::sign_manifest", lambda I_, a, pc: _res(T, B.Bytes(P + grow))),
                     ("is_bmff_format", lambda I_, a, pc: VBool(False)),
                     ("Store::get_composed_manifest", lambda I_, a, pc: (composed.append(a[0].fields["n"].e), _res(T, B.Bytes(a[0].fields["n"])))[1])):
        I.overrides[name] = fn
    r = I.call("Builder::sign_embeddable", [VStruct("Builder", {"placeholder_jumbf_len": some(VInt(P))}), VStr(bstr.lit("image/jpeg"))])
    good = z3.is_true(z3.simplify(is_ok(r)))
    same = good and composed and z3.is_true(z3.simplify(composed[-1] == bv(P)))
    return VStruct("?", {"ok": VBool(good), "same_len": VBool(bool(same))})


COMPOSITES = {"@embeddable": (_comp_embeddable, "sign_embeddable_growth_summary", None)}
VECTORS = [("@embeddable", [g]) for g in (0, 1, 700, 5000)]
NATIVE_MAP = {}

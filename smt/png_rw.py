"""Shared PNG read/write kernel for C07, C08 and C09: symbolic execution of
sdk/src/asset_handlers/png_io.rs  <PngIO as CAIWriter>::write_cai, ::remove_cai_store_from_stream,
::get_object_locations_from_stream, <PngIO as CAIReader>::read_cai, get_cai_data,
get_png_chunk_positions, PngChunkPos::end  and  sdk/src/utils/io_utils.rs  patch_stream, stream_len,
<R as ReaderUtils>::read_to_vec.

The asset is the 8-byte PNG signature followed by ARBITRARY bytes constrained only by an input-side
validity predicate (`valid_png`): the chunks tile the file exactly, the first chunk is IHDR, the walk ends
at the first IEND which is the end of the file, and at most one caBX chunk is present.  Chunk lengths,
names, data, CRC bytes and the position of an existing manifest are all symbolic.

Models (trusted base, listed in evidence): std::io::Cursor (full reads / overwrite-extend writes),
std::io::copy, Read::take + read_to_end / into_inner, byteorder readers, and the third-party
`png_pong` chunk encoder as  be32(len) ++ name ++ data ++ 4 unconstrained CRC bytes  (the SDK's
reader never checks the CRC).  The models are validated on every run against the real handler on
concrete PNGs (VECTORS) and every counterexample is replayed on the real handler.
"""
import z3

import bstr
from bstr import BStr, bv, b8, ult, ule, ugt, uge
from symex import (VStr, VInt, VBool, VStruct, VVec, VEnum, VTuple, VUnit, VRefPlace, Effects, none, some, is_ok, is_some, ok, TAG,
                   Unsupported, strip_ref)
import models_stream as ms

PNG = "/repo/sdk/src/asset_handlers/png_io.rs"
FILES = [PNG, "/repo/sdk/src/utils/io_utils.rs"]
SIG = bytes([137, 80, 78, 71, 13, 10, 26, 10])

_u = [0]


def _from_utf8(I, args, pc):
    b = args[0].e
    _u[0] += 1
    maybe = z3.Bool("utf8_valid!%d" % _u[0])
    valid = z3.Or(bstr.all_bytes(b, lambda c: ult(c, b8(0x80))), maybe)
    return VEnum("Result", z3.If(valid, TAG("Result", "Ok"), TAG("Result", "Err")), {"Ok": [VStr(b)], "Err": [VEnum("Error", TAG("Error", "Utf8"), {})]})


# ---- png_pong chunk encoder ---------------------------------------------------------------------------------
def _enc_new(I, args, pc):
    e, _ = I.current_call
    return VStruct("Encoder", {"sink": VRefPlace(strip_ref(e["args"][0]))})


_crc = [0]


def _enc_encode(I, args, pc):
    enc, chunk = args[0], args[1]
    if not (isinstance(chunk, VEnum) and "Unknown" in chunk.payload):
        raise Unsupported("png_pong encode of a chunk kind that is not modelled")
    u = chunk.payload["Unknown"][0]
    name, data = u.fields["name"], u.fields["data"]
    n = data.e.n
    I.unwind(z3.And(pc, ugt(n, bv(2 ** 31))), "png_pong: chunk data longer than 2^31")
    ln = z3.Extract(31, 0, n)
    be = BStr([z3.Extract(31, 24, ln), z3.Extract(23, 16, ln), z3.Extract(15, 8, ln), z3.Extract(7, 0, ln)], bv(4))
    _crc[0] += 1
    crc = BStr([z3.BitVec("crc!%d_%d" % (_crc[0], i), 8) for i in range(4)], bv(4))
    out = bstr.concat_many([be, BStr((name.e.b + [b8(0)] * 4)[:4], bv(4)), data.e, crc], I.ob(pc))
    old, _, _ = I.eval(enc.fields["sink"].place, I.current_env, pc)
    if isinstance(old, VStr):
        out = bstr.concat(old.e, out, I.ob(pc))
    return Effects(ok(VUnit()), places=[(enc.fields["sink"].place, VStr(bstr.named(out, I.side, "chunk")))])


OVERRIDES = dict(ms.OVERRIDES)
OVERRIDES.update(ms.WRITE_OVERRIDES)
OVERRIDES.update({
    "String::from_utf8": _from_utf8,
    "Encoder::new": _enc_new, "Encoder::into_chunk_enc": lambda I, a, pc: a[0], "Encoder::encode": _enc_encode,
    "ByteBuf::from": lambda I, a, pc: a[0],
})


# ---- input-side description of a valid PNG (independent of the code under analysis) --------------------------------
def walk(d, nchunks):
    """walk the chunk structure of byte string d (BStr) from offset 8.
    -> list of per-step dicts(open, start, end, name(BStr4), is_iend, is_cabx, is_ihdr) for up to nchunks chunks"""
    flen = d.n
    pos = bv(8)
    open_ = z3.BoolVal(True)
    steps = []
    for _ in range(nchunks):
        hdr_ok = z3.And(z3.BVAddNoOverflow(pos, bv(12), False), ule(pos + bv(12), flen))
        lb = (bstr.substr(d, pos, bv(4)).b + [b8(0)] * 4)[:4]
        ln = z3.ZeroExt(32, z3.Concat(*lb))
        nb = (bstr.substr(d, pos + bv(4), bv(4)).b + [b8(0)] * 4)[:4]
        name = BStr(nb, bv(4))
        end = pos + bv(12) + ln
        fits = z3.And(hdr_ok, ule(end, flen))
        here = z3.And(open_, fits)
        st = dict(here=here, start=pos, end=end, length=ln, name=name,
                  is_iend=bstr.eq(name, bstr.lit("IEND")), is_cabx=bstr.eq(name, bstr.lit("caBX")), is_ihdr=bstr.eq(name, bstr.lit("IHDR")))
        steps.append(st)
        open_ = z3.And(here, z3.Not(st["is_iend"]))
        pos = z3.If(here, end, pos)
    return steps


def valid_png(d, nchunks, max_cabx=1):
    """(validity predicate, steps)"""
    st = walk(d, nchunks)
    ends_ok = z3.Or([z3.And(s["here"], s["is_iend"], s["end"] == d.n) for s in st])
    first_ihdr = z3.And(st[0]["here"], st[0]["is_ihdr"])
    ncabx = bv(0)
    for s in st:
        ncabx = ncabx + z3.If(z3.And(s["here"], s["is_cabx"]), bv(1), bv(0))
    # chunk type codes are four ASCII letters (PNG specification)
    def letter(c):
        return z3.Or(z3.And(uge(c, b8(0x41)), ule(c, b8(0x5a))), z3.And(uge(c, b8(0x61)), ule(c, b8(0x7a))))
    names_ok = z3.And([z3.Implies(s["here"], z3.And([letter(c) for c in s["name"].b])) for s in st])
    # a broken chunk in the middle makes ends_ok false (the walk closes); IHDR appears only first
    later_ihdr = z3.Or([z3.And(s["here"], s["is_ihdr"]) for s in st[1:]] or [z3.BoolVal(False)])
    return z3.And(ends_ok, first_ihdr, names_ok, ule(ncabx, bv(max_cabx)), z3.Not(later_ihdr)), st, ncabx


def strip_cabx(d, st, cap):
    """the bytes of d with its (first) caBX chunk removed -- oracle, computed from the walk"""
    has = z3.Or([z3.And(s["here"], s["is_cabx"]) for s in st])
    cs, ce = bv(0), bv(0)
    found = z3.BoolVal(False)
    for s in st:
        hit = z3.And(s["here"], s["is_cabx"], z3.Not(found))
        cs = z3.If(hit, s["start"], cs)
        ce = z3.If(hit, s["end"], ce)
        found = z3.Or(found, hit)
    head = bstr.substr(d, bv(0), cs)
    tail = bstr.substr(d, ce, d.n - ce)
    return bstr.ite(has, bstr.concat(head, tail), d), has


def png_input(E, cap):
    rest = E.str("rest", cap, "bytes")
    return VStr(bstr.concat(bstr.lit(SIG), rest.e)), rest


def run_write(E, data, store):
    """write_cai(input=data, output=empty, store) -> (result, output bytes VStr)"""
    I = E.I
    import symex
    env = {"h": VStruct("PngIO", {}), "inp": ms.stream(data, 0), "out": ms.stream(VStr(bstr.lit("")), 0), "store": store}
    ast = {"k": "mcall", "line": 0, "recv": {"k": "path", "path": "h"}, "method": "write_cai", "turbofish": None,
           "args": [{"k": "ref", "mutable": True, "expr": {"k": "path", "path": "inp"}}, {"k": "ref", "mutable": True, "expr": {"k": "path", "path": "out"}},
                    {"k": "path", "path": "store"}]}
    return _drive(I, ast, env)


def run_remove(E, data):
    I = E.I
    env = {"h": VStruct("PngIO", {}), "inp": ms.stream(data, 0), "out": ms.stream(VStr(bstr.lit("")), 0)}
    ast = {"k": "mcall", "line": 0, "recv": {"k": "path", "path": "h"}, "method": "remove_cai_store_from_stream", "turbofish": None,
           "args": [{"k": "ref", "mutable": True, "expr": {"k": "path", "path": "inp"}}, {"k": "ref", "mutable": True, "expr": {"k": "path", "path": "out"}}]}
    return _drive(I, ast, env)


def _drive(I, ast, env):
    import symex
    I.fns.setdefault("PngIO::write_cai", I.fns.get("<PngIO as CAIWriter>::write_cai"))
    I.fns.setdefault("PngIO::remove_cai_store_from_stream", I.fns.get("<PngIO as CAIWriter>::remove_cai_store_from_stream"))
    I.frames.append(symex.Frame("<driver>"))
    try:
        r, env2, _ = I.eval(ast, env, z3.BoolVal(True))
    finally:
        I.frames.pop()
    return r, env2["out"].fields["bytes"]


def run_read(E, data):
    return E.I.call("<PngIO as CAIReader>::read_cai", [VStruct("PngIO", {}), ms.stream(data, 0)])


def run_positions(E, data):
    return E.I.call("get_png_chunk_positions", [ms.stream(data, 0)])

"""C12 (PNG kernel) -- hash-binding layout maps are ordered, disjoint and cover the file.
Sources executed symbolically: sdk/src/asset_handlers/png_io.rs get_png_chunk_positions,
<PngIO as AssetBoxHash>::get_box_map, PngChunkPos::end, over the in-memory stream model.
The file is the 8-byte PNG signature followed by arbitrary bytes (chunk lengths, names, CRCs and
trailing data are all symbolic).
"""
import z3

import bstr
from bstr import BStr, bv, b8, ult, ule, ugt, uge
from symex import VStr, VInt, VBool, VStruct, VVec, VEnum, VTuple, VUnit, none, some, is_ok, ok, TAG
import models_stream as ms

PNG = "/repo/sdk/src/asset_handlers/png_io.rs"
FILES = [PNG, "/repo/sdk/src/assertions/box_hash.rs"]
SIG = bytes([137, 80, 78, 71, 13, 10, 26, 10])


def caps(tier):
    return dict(rest=40) if tier == "quick" else dict(rest=52)


_u = [0]


def _from_utf8(I, args, pc):
    """String::from_utf8 of a 4-byte chunk name: ASCII is valid; for other bytes validity is left open"""
    b = args[0].e
    _u[0] += 1
    maybe = z3.Bool("utf8_valid!%d" % _u[0])
    valid = z3.Or(bstr.all_bytes(b, lambda c: ult(c, b8(0x80))), maybe)
    return VEnum("Result", z3.If(valid, TAG("Result", "Ok"), TAG("Result", "Err")), {"Ok": [VStr(b)], "Err": [VEnum("Error", TAG("Error", "Utf8"), {})]})


OVERRIDES = dict(ms.OVERRIDES)
OVERRIDES.update({
    "String::from_utf8": _from_utf8,
    "ByteBuf::from": lambda I, a, pc: a[0],
})


def layout(bm_vec):
    """(n, [(start, len)]) of a Vec<BoxMap>"""
    return bm_vec.n, [(x.fields["range_start"].e, x.fields["range_len"].e) for x in bm_vec.items]


def make_queries(tier):
    C = caps(tier)

    def mk(trailing_allowed):
        def q(E):
            rest = E.str("rest", C["rest"], "bytes")
            data = VStr(bstr.concat(bstr.lit(SIG), rest.e))
            flen = data.e.n
            if E.mode == "symbolic":
                E.I.loop_bound = C["rest"] // 12 + 1
            st = ms.stream(data, 0)
            r = E.call("<PngIO as AssetBoxHash>::get_box_map", VStruct("PngIO", {}), st)
            good = is_ok(r)
            bm = r.payload["Ok"][0] if r.payload.get("Ok") else VVec([])
            if isinstance(bm, VTuple):
                bm = VVec(bm.items)
            if not isinstance(bm, VVec):
                bm = VVec([])
            n, ents = layout(bm)
            if not trailing_allowed:
                # twin of the full query with the region of known finding C12-png-trailing-data assumed away.  The
                # region is described on the INPUT, independently of the code under analysis: walking the chunks from
                # offset 8 (length, name, data, crc), the file ends exactly where the first IEND chunk ends.
                d = data.e
                pos = bv(8)
                ends_at_iend = z3.BoolVal(False)
                open_ = z3.BoolVal(True)
                for _ in range(C["rest"] // 12):
                    hdr_ok = z3.And(z3.BVAddNoOverflow(pos, bv(12), False), ule(pos + bv(12), flen))
                    ln = z3.ZeroExt(32, z3.Concat(*(bstr.substr(d, pos, bv(4)).b + [b8(0)] * 4)[:4]))
                    name = bstr.substr(d, pos + bv(4), bv(4))
                    end = pos + bv(12) + ln
                    is_end = bstr.eq(BStr((name.b + [b8(0)] * 4)[:4], bv(4)), bstr.lit("IEND"))
                    ends_at_iend = z3.Or(ends_at_iend, z3.And(open_, hdr_ok, is_end, end == flen))
                    open_ = z3.And(open_, hdr_ok, z3.Not(is_end), ule(end, flen))
                    pos = end
                E.assume(ends_at_iend)
                last_end = bv(0)
                for i, (s0, l0) in enumerate(ents):
                    last_end = z3.If(n == bv(i + 1), s0 + l0, last_end)
                E.prove("the box map covers every byte of the file", z3.Implies(good, last_end == flen))
                E.cover("accepted file that ends with IEND", good)
            conds_order, conds_within = [], []
            for i, (s0, l0) in enumerate(ents):
                ex = ult(bv(i), n)
                conds_within.append(z3.Implies(ex, z3.And(z3.BVAddNoOverflow(s0, l0, False), ule(s0 + l0, flen))))
                if i == 0:
                    conds_order.append(z3.Implies(ex, s0 == bv(0)))
                else:
                    ps, pl = ents[i - 1]
                    conds_order.append(z3.Implies(ex, s0 == ps + pl))
            E.prove("box map entries are ordered and contiguous from offset 0 (no overlap, no gap)", z3.Implies(good, z3.And(conds_order)))
            E.prove("every box lies within the file", z3.Implies(good, z3.And(conds_within)))
            if trailing_allowed:
                last_end = bv(0)
                for i, (s0, l0) in enumerate(ents):
                    last_end = z3.If(n == bv(i + 1), s0 + l0, last_end)
                E.prove("the box map covers every byte of the file", z3.Implies(good, last_end == flen))
            E.cover("a file with IHDR, a synthetic C2PA placeholder and IEND", z3.And(good, n == bv(4)))
            E.cover("rejected file", z3.Not(good))
        q.__name__ = "q_png_box_map%s" % ("" if trailing_allowed else "_no_trailing_data")
        q.__doc__ = "PngIO::get_box_map on signature + arbitrary bytes" + ("" if trailing_allowed else " (files that end with their last listed chunk)")
        return q

    return [mk(True), mk(False)]


def _bm_args(a):
    st = a[1]
    return [st["bytes"]]


NATIVE_MAP = {"<PngIO as AssetBoxHash>::get_box_map": ("png_box_map", _bm_args)}
VECTORS = []

"""C08 (PNG kernel) -- same-size manifest replacement only changes the reported manifest region.
See png_rw.py for the kernel, the input description and the models.  Additional source executed:
<PngIO as CAIWriter>::get_object_locations_from_stream.

For every valid PNG in the bound and every store in the bound, after write_cai:
  * get_object_locations_from_stream reports exactly one manifest (Cai) region; it lies within the file, it holds the
    embedded store (chunk header + store bytes), and the other reported regions do not overlap it and tile the rest of the file;
  * writing a second store of the SAME length yields a file that differs from the first only inside that region.
PNG has no AssetPatch-specific code path beyond this: the store-level sign-then-patch flow overwrites the reported region.
"""
import z3

import bstr
from bstr import BStr, bv, b8, ult, ule, ugt, uge
from symex import VStr, VInt, VBool, VStruct, VVec, VEnum, VUnit, is_ok, ok, TAG
import png_rw as K
import models_stream as ms

FILES = K.FILES
OVERRIDES = dict(K.OVERRIDES)
OVERRIDES.update({
    "usize::try_from": lambda I, a, pc: ok(a[0]),
})


def caps(tier):
    return dict(rest=42, store=3, wide=50, same=42) if tier == "quick" else dict(rest=52, store=3, wide=62, same=42)


def _j(v):
    import symex
    return symex.concrete(v)


def make_queries(tier):
    C = caps(tier)
    NCH = C["rest"] // 12

    def q_png_locations_after_write(E):
        """object locations of a freshly written asset: one manifest region, inside the file, holding the store; the rest tiles the file"""
        data, rest = K.png_input(E, C["rest"])
        store = E.str("store", C["store"], "bytes")
        if E.mode != "symbolic":
            w = E.native("png_write", [_j(data), _j(store)])
            if not w["ok"]:
                return
            L = E.native("png_locations", [w["out"]])
            out = w["out"]
            cai = [l for l in L["locs"] if l["cai"]]
            oth = [l for l in L["locs"] if not l["cai"]]
            okc = L["ok"] and len(cai) == 1
            E.prove("exactly one manifest region is reported for an asset with an embedded store", z3.BoolVal(okc))
            if okc:
                o, n = cai[0]["offset"], cai[0]["length"]
                E.prove("the manifest region lies within the file", z3.BoolVal(o + n <= len(out)))
                E.prove("the manifest region holds the embedded store", z3.BoolVal(n == 12 + len(_j(store)) and out[o + 8:o + 8 + len(_j(store))] == _j(store)))
                cover = sorted([(l["offset"], l["length"]) for l in L["locs"]])
                pos, tiles = 0, True
                for a, b in cover:
                    tiles = tiles and a == pos
                    pos = a + b
                E.prove("the reported regions do not overlap and together cover the file", z3.BoolVal(tiles and pos == len(out)))
            return
        I = E.I
        I.loop_bound = NCH + 3
        valid, st, ncabx = K.valid_png(data.e, NCH)
        E.assume(valid)
        wr, out = K.run_write(E, data, store)
        r = I.call("<PngIO as CAIWriter>::get_object_locations_from_stream", [VStruct("PngIO", {}), ms.stream(out, 0)])
        good = z3.And(is_ok(wr), is_ok(r))
        locs = r.payload["Ok"][0]
        flen = out.e.n
        n = store.e.n
        E.prove("exactly one manifest region is reported for an asset with an embedded store", z3.Implies(is_ok(wr), z3.And(is_ok(r), locs.n == bv(3))))
        cai, before, after = locs.items[0], locs.items[1], locs.items[2]
        co, cl = cai.fields["offset"].e, cai.fields["length"].e
        E.prove("the manifest region lies within the file", z3.Implies(good, z3.And(z3.BVAddNoOverflow(co, cl, False), ule(co + cl, flen))))
        E.prove("the manifest region holds the embedded store",
                z3.Implies(good, z3.And(cai.fields["htype"].tag == TAG("HashBlockObjectType", "Cai"), cl == bv(12) + n,
                                        bstr.eq(bstr.substr(out.e, co + bv(8), n), store.e))))
        bo, bl = before.fields["offset"].e, before.fields["length"].e
        ao, al = after.fields["offset"].e, after.fields["length"].e
        E.prove("the reported regions do not overlap and together cover the file",
                z3.Implies(good, z3.And(bo == bv(0), bo + bl == co, ao == co + cl, ao + al == flen, ule(ao, flen),
                                        before.fields["htype"].tag == TAG("HashBlockObjectType", "Other"),
                                        after.fields["htype"].tag == TAG("HashBlockObjectType", "Other"))))
        E.cover("asset that already carried a manifest", z3.And(good, ncabx == bv(1)))
        E.cover("fresh asset", z3.And(good, ncabx == bv(0)))

    def q_png_same_size_replacement(E):
        """two stores of the same length written into the same asset: the files differ only inside the manifest region"""
        data, rest = K.png_input(E, C["same"])
        s1 = E.str("store1", C["store"], "bytes")
        s2 = E.str("store2", C["store"], "bytes")
        if E.mode != "symbolic":
            if len(_j(s1)) != len(_j(s2)):
                return
            w1 = E.native("png_write", [_j(data), _j(s1)])
            w2 = E.native("png_write", [_j(data), _j(s2)])
            if not (w1["ok"] and w2["ok"]):
                E.prove("both writes succeed", z3.BoolVal(w1["ok"] == w2["ok"]))
                return
            L = E.native("png_locations", [w1["out"]])
            cai = [l for l in L["locs"] if l["cai"]][0]
            o, n = cai["offset"], cai["length"]
            a, b = w1["out"], w2["out"]
            E.prove("both writes succeed", z3.BoolVal(True))
            E.prove("bytes outside the manifest region are identical", z3.BoolVal(len(a) == len(b) and a[:o] == b[:o] and a[o + n:] == b[o + n:]))
            return
        I = E.I
        SCH = C["same"] // 12
        I.loop_bound = SCH + 3
        valid, st, ncabx = K.valid_png(data.e, SCH)
        E.assume(valid)
        E.assume(s1.e.n == s2.e.n)
        w1, o1 = K.run_write(E, data, s1)
        w2, o2 = K.run_write(E, data, s2)
        r = I.call("<PngIO as CAIWriter>::get_object_locations_from_stream", [VStruct("PngIO", {}), ms.stream(o1, 0)])
        cai = r.payload["Ok"][0].items[0]
        co, cl = cai.fields["offset"].e, cai.fields["length"].e
        good = z3.And(is_ok(w1), is_ok(w2), is_ok(r))
        E.prove("both writes succeed", is_ok(w1) == is_ok(w2))
        a, b = o1.e, o2.e
        E.prove("bytes outside the manifest region are identical",
                z3.Implies(good, z3.And(a.n == b.n, bstr.eq(bstr.substr(a, bv(0), co), bstr.substr(b, bv(0), co)),
                                        bstr.eq(bstr.substr(a, co + cl, a.n - (co + cl)), bstr.substr(b, co + cl, a.n - (co + cl))))))
        E.cover("replacement in an asset with an existing manifest", z3.And(good, ncabx == bv(1), ugt(s1.e.n, bv(0))))

    def q_png_locations_existing_manifest(E):
        """object locations of ANY valid asset that already carries a manifest chunk (anywhere after IHDR, e.g. written by another tool):
        the manifest region is exactly that chunk, the rest tiles the file"""
        data, rest = K.png_input(E, C["wide"])
        if E.mode != "symbolic":
            L = E.native("png_locations", [_j(data)])
            b = _j(data).encode("latin-1")
            pos, cs, ce = 8, None, None
            while pos + 12 <= len(b):
                ln = int.from_bytes(b[pos:pos + 4], "big")
                if b[pos + 4:pos + 8] == b"caBX":
                    cs, ce = pos, pos + 12 + ln
                    break
                if b[pos + 4:pos + 8] == b"IEND":
                    break
                pos += 12 + ln
            cai = [l for l in L["locs"] if l["cai"]]
            E.prove("the reported manifest region is exactly the existing manifest chunk", z3.BoolVal(L["ok"] and len(cai) == 1 and cai[0]["offset"] == cs and cai[0]["length"] == ce - cs))
            cover = sorted([(l["offset"], l["length"]) for l in L["locs"]])
            p0, tiles = 0, True
            for a, c in cover:
                tiles = tiles and a == p0
                p0 = a + c
            E.prove("the reported regions do not overlap and together cover the file", z3.BoolVal(L["ok"] and tiles and p0 == len(b)))
            return
        I = E.I
        WCH = C["wide"] // 12
        I.loop_bound = WCH + 3
        valid, st, ncabx = K.valid_png(data.e, WCH)
        E.assume(valid)
        E.assume(ncabx == bv(1))
        cs, ce = bv(0), bv(0)
        for s_ in st:
            hit = z3.And(s_["here"], s_["is_cabx"])
            cs = z3.If(hit, s_["start"], cs)
            ce = z3.If(hit, s_["end"], ce)
        r = I.call("<PngIO as CAIWriter>::get_object_locations_from_stream", [VStruct("PngIO", {}), ms.stream(data, 0)])
        good = is_ok(r)
        locs = r.payload["Ok"][0]
        cai, before, after = locs.items[0], locs.items[1], locs.items[2]
        co, cl = cai.fields["offset"].e, cai.fields["length"].e
        flen = data.e.n
        E.prove("the reported manifest region is exactly the existing manifest chunk",
                z3.And(good, locs.n == bv(3), cai.fields["htype"].tag == TAG("HashBlockObjectType", "Cai"), co == cs, co + cl == ce))
        bo, bl = before.fields["offset"].e, before.fields["length"].e
        ao, al = after.fields["offset"].e, after.fields["length"].e
        E.prove("the reported regions do not overlap and together cover the file",
                z3.Implies(good, z3.And(bo == bv(0), bo + bl == co, ao == co + cl, ao + al == flen)))
        E.cover("manifest chunk preceded by another chunk", z3.And(good, st[2]["here"], st[2]["is_cabx"]))
        E.cover("manifest chunk directly after IHDR", z3.And(good, st[1]["here"], st[1]["is_cabx"]))

    return [q_png_locations_after_write, q_png_same_size_replacement, q_png_locations_existing_manifest]


def _comp_locs(I, args):
    I.loop_bound = 8
    d = VStr(bstr.lit(I.raw_args[0].encode("latin-1")))
    r = I.call("<PngIO as CAIWriter>::get_object_locations_from_stream", [VStruct("PngIO", {}), ms.stream(d, 0)])
    if not z3.is_true(z3.simplify(is_ok(r))):
        return VStruct("?", {"ok": VBool(False), "locs": VVec([])})
    locs = r.payload["Ok"][0]
    k = bstr.cval(z3.simplify(locs.n))
    out = [VStruct("?", {"offset": x.fields["offset"], "length": x.fields["length"],
                         "cai": VBool(z3.simplify(x.fields["htype"].tag == TAG("HashBlockObjectType", "Cai")))}) for x in locs.items[:k]]
    from symex import VTuple
    return VStruct("?", {"ok": VBool(True), "locs": VTuple(out)})


import props_c07 as _c07
COMPOSITES = dict(_c07.COMPOSITES)
COMPOSITES["@png_locations"] = (_comp_locs, "png_locations", None)
VECTORS = list(_c07.VECTORS) + [("@png_locations", [x]) for x in (_c07._A, _c07._B, _c07._C, _c07._D, _c07._BAD)]
NATIVE_MAP = {}

"""C26 -- the network host allow-list is enforced on every request (kernel: pattern matching and the
enforcement wrapper).  Sources executed symbolically: sdk/src/http/restricted.rs
(HostPattern::new, HostPattern::matches, is_uri_allowed, RestrictedResolver::is_uri_allowed,
<RestrictedResolver as SyncHttpResolver>::http_resolve).

`http::Uri` is modelled by the three accessors the code uses: host(), port() (as_str) and scheme()
(as_str), each an arbitrary optional string -- an over-approximation of what http::Uri can return.
The wrapped transport is a stub that records "request reached the transport" (an event).
"""
import z3

import bstr
from bstr import b8, bv, uge, ule, ult, ugt
from symex import VStr, VBool, VStruct, VVec, VEnum, VUnit, none, some, veq, opt, is_some, ok, TAG

FILES = ["/repo/sdk/src/http/restricted.rs"]


def caps(tier):
    return dict(pat=14, host=10, port=3) if tier == "quick" else dict(pat=24, host=16, port=5)


# ---- stubs (environment): Uri accessors, the inner transport, log sanitising -------------------
def _uri_host(I, args, pc):
    return args[0].fields["host"]


def _uri_port(I, args, pc):
    return args[0].fields["port"]


def _uri_scheme(I, args, pc):
    return args[0].fields["scheme"]


def _opaque_str(I, args, pc):
    return VStr(bstr.lit("<opaque>"))


def _request_uri(I, args, pc):
    return args[0].fields["uri"]


def _transport(I, args, pc):
    I.events.append((pc, "transport", args[1]))
    return ok(VStruct("Response", {}))


OVERRIDES = {
    "Uri::host": _uri_host,
    "Uri::port": _uri_port,
    "Uri::scheme": _uri_scheme,
    "Uri::to_string": _opaque_str,
    "Request::uri": _request_uri,
    "sanitize_for_log": _opaque_str,
    "Transport::http_resolve": _transport,
    "Transport::http_resolve_async": _transport,
}


def lower(b):
    return bstr.lower(b)


def host_chars(c):
    """characters http::Uri accepts in a reg-name host: letters, digits, '.', '-'"""
    return z3.Or(z3.And(uge(c, b8(0x61)), ule(c, b8(0x7a))), z3.And(uge(c, b8(0x41)), ule(c, b8(0x5a))),
                 z3.And(uge(c, b8(0x30)), ule(c, b8(0x39))), c == b8(0x2e), c == b8(0x2d))


def sym_uri(E, C, sfx=""):
    host = E.str("host" + sfx, C["host"], "graph", min_len=1)
    E.assume(bstr.all_bytes(host.e, host_chars))
    port = E.str("port" + sfx, C["port"], "graph", min_len=1)
    E.assume(bstr.all_bytes(port.e, bstr.is_digit))
    has_port = E.bool("has_port" + sfx)
    https = E.bool("https" + sfx)
    scheme = VStr(bstr.ite(https.e, bstr.lit("https"), bstr.lit("http")))
    uri = VStruct("Uri", {"host": some(host), "port": opt(has_port.e, port), "scheme": some(scheme)})
    return uri, host, port, has_port, scheme


def documented_match(pattern, host, port, has_port, scheme):
    """The documented rules, written independently on the raw pattern text (reference oracle):
    pattern = [scheme://]host[:port], compared case-insensitively; '*.suffix' matches a host that ends
    with '.suffix' and has at least one more character; the port must be equal (or absent in both);
    a scheme in the pattern must equal the URI's scheme."""
    p = bstr.lower(pattern.e)
    has_https = bstr.prefixof(bstr.lit("https://"), p)
    has_http = z3.And(z3.Not(has_https), bstr.prefixof(bstr.lit("http://"), p))
    off = z3.If(has_https, bv(8), z3.If(has_http, bv(7), bv(0)))
    rest = bstr.substr(p, off, p.n - off)
    found, idx = bstr.lastindexof(rest, bstr.lit(":"))
    phost = bstr.ite(found, bstr.substr(rest, bv(0), idx), rest)
    pport = bstr.substr(rest, idx + bv(1), rest.n - idx - bv(1))
    h = bstr.lower(host.e)
    wild = bstr.prefixof(bstr.lit("*."), phost)
    suffix = bstr.substr(phost, bv(1), phost.n - bv(1))  # ".suffix"
    host_ok = z3.If(wild,
                    z3.And(bstr.suffixof(suffix, h), ugt(h.n, suffix.n)),
                    bstr.eq(phost, h))
    port_ok = z3.If(found, z3.And(has_port.e, bstr.eq(pport, port.e)), z3.Not(has_port.e))
    scheme_ok = z3.And(z3.Implies(has_https, bstr.eq(scheme.e, bstr.lit("https"))),
                       z3.Implies(has_http, bstr.eq(scheme.e, bstr.lit("http"))))
    host_present = ugt(phost.n, bv(0))
    # a pattern without host part (scheme only) is documented to match on the scheme alone
    return z3.If(host_present, z3.And(host_ok, port_ok, scheme_ok), z3.And(z3.Or(has_https, has_http), scheme_ok))


def make_queries(tier):
    C = caps(tier)

    def pattern(E, name):
        p = E.str(name, C["pat"], "graph", min_len=1)
        E.assume(bstr.all_bytes(p.e, lambda c: z3.Or(host_chars(c), c == b8(0x2a), c == b8(0x3a), c == b8(0x2f))))
        return p

    def q_pattern_match_sound(E):
        """HostPattern::new(p).matches(uri) holds only under the documented rules"""
        p = pattern(E, "pattern")
        uri, host, port, has_port, scheme = sym_uri(E, C)
        hp = E.call("HostPattern::new", p)
        m = E.call("HostPattern::matches", hp, uri)
        want = documented_match(p, host, port, has_port, scheme)
        E.prove("a match implies the documented rules hold (no request outside the allow-list)", z3.Implies(m.e, want))
        E.cover("wildcard pattern matching a sub-domain", z3.And(m.e, bstr.prefixof(bstr.lit("*."), p.e)))
        E.cover("exact pattern with port matching", z3.And(m.e, has_port.e, z3.Not(bstr.prefixof(bstr.lit("*."), p.e))))
        E.cover("scheme mismatch rejected", z3.And(z3.Not(m.e), bstr.prefixof(bstr.lit("https://"), bstr.lower(p.e)), bstr.eq(scheme.e, bstr.lit("http"))))

    def q_wildcard_never_matches_apex_or_lookalike(E):
        """*.suffix never matches the apex 'suffix' nor 'evilsuffix' (the documented negative examples)"""
        suf = E.str("suffix", C["host"] - 2, "graph", min_len=1)
        E.assume(bstr.all_bytes(suf.e, lambda c: z3.And(host_chars(c))))
        pre = E.str("prefix", 4, "graph")
        E.assume(bstr.all_bytes(pre.e, lambda c: z3.And(host_chars(c), c != b8(0x2e))))
        pat = VStr(bstr.concat(bstr.lit("*."), suf.e))
        host = VStr(bstr.concat(pre.e, suf.e))  # no dot between prefix and suffix
        uri = VStruct("Uri", {"host": some(host), "port": none(), "scheme": some(VStr(bstr.lit("https")))})
        hp = E.call("HostPattern::new", pat)
        m = E.call("HostPattern::matches", hp, uri)
        # the only way host = prefix+suffix may match is when it really ends with "."+suffix
        dot_suf = bstr.concat(bstr.lit("."), bstr.lower(suf.e))
        E.prove("wildcard requires a '.'-separated sub-domain", z3.Implies(m.e, z3.And(bstr.suffixof(dot_suf, bstr.lower(host.e)), ugt(host.e.n, dot_suf.n))))
        E.cover("apex host", pre.e.n == bv(0))
        E.cover("look-alike host", ugt(pre.e.n, bv(2)))

    def q_enforcement(E, entry="<RestrictedResolver as SyncHttpResolver>::http_resolve"):
        """RestrictedResolver::http_resolve forwards a request to the transport only if some pattern matches"""
        p1, p2 = pattern(E, "pattern1"), pattern(E, "pattern2")
        uri, host, port, has_port, scheme = sym_uri(E, C)
        hp1, hp2 = E.call("HostPattern::new", p1), E.call("HostPattern::new", p2)
        two = E.bool("two_patterns")
        configured = E.bool("allow_list_configured")
        pats = VVec([hp1, hp2], z3.If(two.e, bv(2), bv(1)))
        resolver = VStruct("RestrictedResolver", {"inner": VStruct("Transport", {}), "allowed_hosts": opt(configured.e, pats)})
        req = VStruct("Request", {"uri": uri})
        if E.mode == "symbolic":
            res = E.call(entry, resolver, req)
            reached = z3.Or([g for g, tag, _ in E.I.events if tag == "transport"] or [z3.BoolVal(False)])
            is_err = res.tag == TAG("Result", "Err")
        else:
            import symex as _sx
            cj = lambda v: _sx.concrete(v)
            plist = None
            if cj(configured):
                plist = [cj(p1)] + ([cj(p2)] if cj(two) else [])
            r = E.native("restricted_resolver_reached", [plist, _uri_text(cj(uri))])
            reached = z3.BoolVal(bool(r["reached"]))
            is_err = z3.BoolVal(bool(r["err"]))
        if True:
            ok1 = documented_match(p1, host, port, has_port, scheme)
            ok2 = z3.And(two.e, documented_match(p2, host, port, has_port, scheme))
            E.prove("with an allow-list configured, the transport is reached only for an allowed URI",
                    z3.Implies(z3.And(configured.e, reached), z3.Or(ok1, ok2)))
            E.prove("a refused request returns an error", z3.Implies(z3.Not(reached), is_err))
            E.cover("request refused", z3.And(configured.e, z3.Not(reached)))
            E.cover("request allowed by the second pattern only", z3.And(configured.e, reached, z3.Not(ok1)))
            E.cover("no allow-list: everything forwarded", z3.And(z3.Not(configured.e), reached))

    def q_enforcement_async(E):
        """the async twin of the enforcement wrapper (executed as straight-line code; replayed through the sync entry point)"""
        return q_enforcement(E, "<RestrictedResolver as AsyncHttpResolver>::http_resolve_async")

    return [q_pattern_match_sound, q_wildcard_never_matches_apex_or_lookalike, q_enforcement, q_enforcement_async]


# ---- native mapping (replay + differential validation) -------------------------------------------
def _uri_text(u):
    host = u["host"]["payload"][0]
    port = u["port"]["payload"][0] if u["port"]["variant"] == "Some" else None
    scheme = u["scheme"]["payload"][0]
    return "%s://%s%s/x" % (scheme, host, (":" + port) if port is not None else "")


class _HP:
    pass


def _matches_args(a):
    # a[0] is the HostPattern struct produced by HostPattern::new (we pass its `pattern` text natively)
    return [a[0]["pattern"], _uri_text(a[1])]


NATIVE_MAP = {
    "HostPattern::new": ("host_pattern_new_identity", None),
    "HostPattern::matches": ("host_pattern_matches_result", _matches_args),
}

def _c_matches(I, args):
    hp = I.call("HostPattern::new", [args[0]])
    u = VStruct("Uri", args[1].fields)
    return I.call("HostPattern::matches", [hp, u])


def _vec(pattern, scheme, host, port):
    uri = {"host": {"variant": "Some", "payload": [host]},
           "port": {"variant": "Some", "payload": [port]} if port else {"variant": "None", "payload": []},
           "scheme": {"variant": "Some", "payload": [scheme]}}
    return ("@pattern_matches", [pattern, uri])


class _Comp(dict):
    pass


def _native_args_for(args):
    return [args[0], _uri_text(args[1])]


COMPOSITES = {"@pattern_matches": (_c_matches, "pattern_matches_bool", _native_args_for)}

# vectors: the repository's own unit-test cases for HostPattern (restricted.rs tests) and the doc examples
_RAW = [
    ("*.contentauthenticity.org", "https", "sub.contentauthenticity.org", None),
    ("*.contentauthenticity.org", "http", "api.contentauthenticity.org", None),
    ("*.contentauthenticity.org", "https", "contentauthenticity.org", None),
    ("*.contentauthenticity.org", "https", "sub.fakecontentauthenticity.org", None),
    ("*.contentauthenticity.org", "https", "fakecontentauthenticity.org", None),
    ("http://192.0.2.1:8080", "http", "192.0.2.1", "8080"),
    ("http://192.0.2.1:8080", "https", "192.0.2.1", "8080"),
    ("http://192.0.2.1:8080", "http", "192.0.2.1", None),
    ("http://192.0.2.1:8080", "http", "192.0.2.2", "8080"),
    ("https://*.Example.COM", "https", "A.example.com", None),
    ("Example.com", "http", "EXAMPLE.COM", None),
    ("example.com:443", "https", "example.com", "443"),
    ("example.com:443", "https", "example.com", None),
    ("example.com", "https", "example.com", "443"),
    ("https://", "https", "anything.org", None),
    ("https://", "http", "anything.org", None),
    ("*.", "http", "a.", None),
    (":80", "http", "x", "80"),
    ("*", "http", "x", None),
    ("a:b:c", "http", "a:b", "c"),
]
VECTORS = [_vec(*r) for r in _RAW]


//! astdump <file.rs> <name>... : dump the syn AST of the named free functions / `Type::method`
//! items (and `const` items) of one Rust source file as JSON, for the symbolic interpreter in
//! /verif/smt.  Everything the interpreter does not understand is still emitted (kind
//! "unsupported" with the token text) so that it fails closed.
use std::{env, fs};

use quote::ToTokens;
use serde_json::{json, Value};
use syn::{punctuated::Punctuated, Expr, Item, Pat, Stmt, Token};

fn toks<T: ToTokens>(t: &T) -> String {
    t.to_token_stream().to_string()
}

fn line<T: syn::spanned::Spanned>(t: &T) -> usize {
    t.span().start().line
}

fn pat(p: &Pat) -> Value {
    match p {
        Pat::Ident(i) => json!({"k":"ident","name":i.ident.to_string(),"by_ref":i.by_ref.is_some(),"mutable":i.mutability.is_some(),
                                "sub": i.subpat.as_ref().map(|(_, p)| pat(p))}),
        Pat::Wild(_) => json!({"k":"wild"}),
        Pat::Tuple(t) => json!({"k":"tuple","elems":t.elems.iter().map(pat).collect::<Vec<_>>()}),
        Pat::TupleStruct(t) => json!({"k":"tuple_struct","path":toks(&t.path).replace(' ', ""),"elems":t.elems.iter().map(pat).collect::<Vec<_>>()}),
        Pat::Path(p) => json!({"k":"path","path":toks(&p.path).replace(' ', "")}),
        Pat::Lit(l) => json!({"k":"lit","expr":expr(&Expr::Lit(syn::ExprLit{attrs:vec![],lit:l.lit.clone()}))}),
        Pat::Or(o) => json!({"k":"or","cases":o.cases.iter().map(pat).collect::<Vec<_>>()}),
        Pat::Reference(r) => json!({"k":"ref","pat":pat(&r.pat)}),
        Pat::Paren(r) => pat(&r.pat),
        Pat::Type(t) => json!({"k":"typed","pat":pat(&t.pat),"ty":toks(&t.ty)}),
        Pat::Rest(_) => json!({"k":"rest"}),
        Pat::Slice(s) => json!({"k":"slice","elems":s.elems.iter().map(pat).collect::<Vec<_>>()}),
        Pat::Struct(s) => json!({"k":"struct","path":toks(&s.path).replace(' ', ""),
            "fields": s.fields.iter().map(|f| json!({"member":toks(&f.member),"pat":pat(&f.pat)})).collect::<Vec<_>>(),
            "rest": s.rest.is_some()}),
        Pat::Range(r) => json!({"k":"range","lo":r.start.as_ref().map(|e| expr(e)),"hi":r.end.as_ref().map(|e| expr(e)),
                                "inclusive": matches!(r.limits, syn::RangeLimits::Closed(_))}),
        other => json!({"k":"unsupported","text":toks(other)}),
    }
}

fn block(b: &syn::Block) -> Value {
    json!({"k":"block","stmts":b.stmts.iter().map(stmt).collect::<Vec<_>>()})
}

fn stmt(s: &Stmt) -> Value {
    match s {
        Stmt::Local(l) => json!({"k":"let","line":line(l),"pat":pat(&l.pat),
            "init": l.init.as_ref().map(|i| expr(&i.expr)),
            "else": l.init.as_ref().and_then(|i| i.diverge.as_ref().map(|(_, e)| expr(e)))}),
        Stmt::Expr(e, semi) => json!({"k":"expr","semi":semi.is_some(),"expr":expr(e)}),
        // a `const NAME: T = EXPR;` inside a function body behaves like an immutable local
        Stmt::Item(Item::Const(c)) => json!({"k":"let","line":0,"pat":{"k":"ident","name":c.ident.to_string(),"sub":Value::Null},
            "init": expr(&c.expr), "else": Value::Null}),
        Stmt::Item(i) => json!({"k":"item","text":toks(i)}),
        Stmt::Macro(m) => json!({"k":"expr","semi":m.semi_token.is_some(),"expr":mac(&m.mac)}),
    }
}

struct MatchesArgs {
    scrut: Expr,
    pat: Pat,
    guard: Option<Expr>,
}

impl syn::parse::Parse for MatchesArgs {
    fn parse(input: syn::parse::ParseStream) -> syn::Result<Self> {
        let scrut: Expr = input.parse()?;
        input.parse::<Token![,]>()?;
        let pat = Pat::parse_multi_with_leading_vert(input)?;
        let guard = if input.peek(Token![if]) {
            input.parse::<Token![if]>()?;
            Some(input.parse::<Expr>()?)
        } else {
            None
        };
        let _ = input.parse::<Option<Token![,]>>();
        Ok(MatchesArgs { scrut, pat, guard })
    }
}

fn mac(m: &syn::Macro) -> Value {
    let name = toks(&m.path).replace(' ', "");
    if name == "vec" {
        // vec![elem; n]
        struct Rep(Expr, Expr);
        impl syn::parse::Parse for Rep {
            fn parse(input: syn::parse::ParseStream) -> syn::Result<Self> {
                let a: Expr = input.parse()?;
                input.parse::<Token![;]>()?;
                let b: Expr = input.parse()?;
                Ok(Rep(a, b))
            }
        }
        if let Ok(r) = m.parse_body::<Rep>() {
            return json!({"k":"vec_repeat","line":line(m),"elem":expr(&r.0),"len":expr(&r.1)});
        }
    }
    if name == "cfg" {
        return json!({"k":"cfg_macro","line":line(m),"text":m.tokens.to_string()});
    }
    if name == "matches" {
        if let Ok(ma) = m.parse_body::<MatchesArgs>() {
            return json!({"k":"matches","line":line(m),"scrut":expr(&ma.scrut),"pat":pat(&ma.pat),
                          "guard": ma.guard.as_ref().map(|g| expr(g))});
        }
    }
    let args: Option<Vec<Value>> = m
        .parse_body_with(Punctuated::<Expr, Token![,]>::parse_terminated)
        .ok()
        .map(|p| p.iter().map(expr).collect());
    json!({"k":"macro","name":name,"args":args,"text":m.tokens.to_string(),"line":line(m)})
}

fn lit(l: &syn::Lit) -> Value {
    match l {
        syn::Lit::Str(s) => json!({"k":"lit","ty":"str","value":s.value()}),
        syn::Lit::ByteStr(s) => json!({"k":"lit","ty":"bytes","value":s.value()}),
        syn::Lit::Byte(b) => json!({"k":"lit","ty":"u8","value":b.value()}),
        syn::Lit::Char(c) => json!({"k":"lit","ty":"char","value":c.value().to_string()}),
        syn::Lit::Int(i) => json!({"k":"lit","ty":"int","value":i.base10_digits(),"suffix":i.suffix()}),
        syn::Lit::Bool(b) => json!({"k":"lit","ty":"bool","value":b.value}),
        other => json!({"k":"unsupported","text":toks(other)}),
    }
}

fn expr(e: &Expr) -> Value {
    match e {
        Expr::Lit(l) => lit(&l.lit),
        Expr::Path(p) => {
            // `RangeSet::<[T; 1]>::from` -> `RangeSet::from` (generic arguments are irrelevant to the encoder)
            let segs: Vec<String> = p.path.segments.iter().map(|s| s.ident.to_string()).collect();
            json!({"k":"path","path":segs.join("::"),"full":toks(&p.path).replace(' ', "")})
        }
        Expr::Call(c) => json!({"k":"call","line":line(c),"func":expr(&c.func),"args":c.args.iter().map(expr).collect::<Vec<_>>()}),
        Expr::MethodCall(m) => json!({"k":"mcall","line":line(&m.method),"recv":expr(&m.receiver),"method":m.method.to_string(),
            "turbofish": m.turbofish.as_ref().map(|t| toks(t)),
            "args":m.args.iter().map(expr).collect::<Vec<_>>()}),
        Expr::Macro(m) => mac(&m.mac),
        Expr::If(i) => json!({"k":"if","line":line(i),"cond":expr(&i.cond),"then":block(&i.then_branch),
            "else": i.else_branch.as_ref().map(|(_, e)| expr(e))}),
        Expr::Let(l) => json!({"k":"let_cond","pat":pat(&l.pat),"expr":expr(&l.expr)}),
        Expr::Match(m) => json!({"k":"match","line":line(m),"scrut":expr(&m.expr),
            "arms": m.arms.iter().map(|a| json!({"pat":pat(&a.pat),"guard":a.guard.as_ref().map(|(_, g)| expr(g)),"body":expr(&a.body)})).collect::<Vec<_>>()}),
        Expr::Block(b) => block(&b.block),
        Expr::Unary(u) => json!({"k":"unary","op":toks(&u.op),"expr":expr(&u.expr)}),
        Expr::Binary(b) => json!({"k":"binary","line":line(b),"op":toks(&b.op),"l":expr(&b.left),"r":expr(&b.right)}),
        Expr::Reference(r) => json!({"k":"ref","mutable":r.mutability.is_some(),"expr":expr(&r.expr)}),
        Expr::Paren(p) => expr(&p.expr),
        // `.await`: the encoder executes async bodies as straight-line code (no interleaving is modelled)
        Expr::Await(a) => expr(&a.base),
        Expr::Group(p) => expr(&p.expr),
        Expr::Field(f) => json!({"k":"field","base":expr(&f.base),"member":toks(&f.member)}),
        Expr::Index(i) => json!({"k":"index","line":line(i),"base":expr(&i.expr),"index":expr(&i.index)}),
        Expr::Range(r) => json!({"k":"range","lo":r.start.as_ref().map(|e| expr(e)),"hi":r.end.as_ref().map(|e| expr(e)),
            "inclusive": matches!(r.limits, syn::RangeLimits::Closed(_))}),
        Expr::Return(r) => json!({"k":"return","expr":r.expr.as_ref().map(|e| expr(e))}),
        Expr::Tuple(t) => json!({"k":"tuple","elems":t.elems.iter().map(expr).collect::<Vec<_>>()}),
        Expr::Array(t) => json!({"k":"array","elems":t.elems.iter().map(expr).collect::<Vec<_>>()}),
        Expr::Repeat(r) => json!({"k":"repeat","line":line(r),"elem":expr(&r.expr),"len":expr(&r.len)}),
        Expr::Closure(c) => json!({"k":"closure","params":c.inputs.iter().map(pat).collect::<Vec<_>>(),"body":expr(&c.body)}),
        Expr::Try(t) => json!({"k":"try","line":line(t),"expr":expr(&t.expr)}),
        Expr::Assign(a) => json!({"k":"assign","l":expr(&a.left),"r":expr(&a.right)}),
        Expr::While(w) => json!({"k":"while","cond":expr(&w.cond),"body":block(&w.body)}),
        Expr::Loop(l) => json!({"k":"loop","body":block(&l.body)}),
        Expr::ForLoop(f) => json!({"k":"for","pat":pat(&f.pat),"iter":expr(&f.expr),"body":block(&f.body)}),
        Expr::Break(b) => json!({"k":"break","expr":b.expr.as_ref().map(|e| expr(e))}),
        Expr::Continue(_) => json!({"k":"continue"}),
        Expr::Cast(c) => json!({"k":"cast","expr":expr(&c.expr),"ty":toks(&c.ty)}),
        Expr::Struct(s) => json!({"k":"struct","path":toks(&s.path).replace(' ', ""),
            "fields": s.fields.iter().map(|f| json!({"member":toks(&f.member),"expr":expr(&f.expr)})).collect::<Vec<_>>(),
            "rest": s.rest.as_ref().map(|r| expr(r))}),
        other => json!({"k":"unsupported","text":toks(other)}),
    }
}

fn sig(s: &syn::Signature) -> Value {
    json!({
        "name": s.ident.to_string(),
        "params": s.inputs.iter().map(|a| match a {
            syn::FnArg::Receiver(r) => json!({"name":"self","ty": if r.reference.is_some() { "&Self" } else { "Self" },
                                             "mut_ref": r.reference.is_some() && r.mutability.is_some()}),
            syn::FnArg::Typed(t) => json!({"name": toks(&t.pat), "pat": pat(&t.pat), "ty": toks(&t.ty)}),
        }).collect::<Vec<_>>(),
        "ret": match &s.output { syn::ReturnType::Default => "()".to_string(), syn::ReturnType::Type(_, t) => toks(t) },
    })
}

fn main() {
    let args: Vec<String> = env::args().collect();
    if args.len() < 2 {
        eprintln!("usage: astdump <file.rs> [name ...]");
        std::process::exit(2);
    }
    let src = fs::read_to_string(&args[1]).expect("read source");
    let file = syn::parse_file(&src).expect("parse source");
    let want: Vec<&str> = args[2..].iter().map(|s| s.as_str()).collect();
    let mut out = serde_json::Map::new();
    let mut consts = serde_json::Map::new();
    fn walk(items: &[Item], want: &[&str], out: &mut serde_json::Map<String, Value>, consts: &mut serde_json::Map<String, Value>, in_test: bool) {
        for it in items {
            match it {
                Item::Fn(f) => {
                    let n = f.sig.ident.to_string();
                    if !in_test && (want.is_empty() || want.contains(&n.as_str())) {
                        out.insert(n, json!({"sig":sig(&f.sig),"body":block(&f.block),"line":line(&f.sig.ident)}));
                    }
                }
                Item::Impl(im) if im.trait_.is_none() || true => {
                    let mut ty = toks(&im.self_ty).replace(' ', "");
                    if let Some(i) = ty.find('<') {
                        ty.truncate(i); // RestrictedResolver<T> -> RestrictedResolver
                    }
                    let tr = im.trait_.as_ref().map(|(_, p, _)| {
                        let mut t = toks(p).replace(' ', "");
                        if let Some(i) = t.find('<') {
                            t.truncate(i);
                        }
                        t
                    });
                    for ii in &im.items {
                        if let syn::ImplItem::Fn(f) = ii {
                            let n = match &tr {
                                Some(t) => format!("<{} as {}>::{}", ty, t, f.sig.ident),
                                None => format!("{}::{}", ty, f.sig.ident),
                            };
                            if !in_test && (want.is_empty() || want.contains(&n.as_str())) {
                                out.insert(n, json!({"sig":sig(&f.sig),"body":block(&f.block),"line":line(&f.sig.ident)}));
                            }
                        }
                    }
                }
                Item::Const(c) => {
                    if !in_test {
                        consts.insert(c.ident.to_string(), json!({"ty":toks(&c.ty),"expr":expr(&c.expr)}));
                    }
                }
                Item::Mod(m) => {
                    // test modules and the cfg-guarded verification hook wrappers are not part of the code under analysis
                    let is_test = m.ident == "tests" || m.ident == "test" || m.ident == "verif_hooks"
                        || m.attrs.iter().any(|a| toks(a).contains("cfg (test)") || toks(a).contains("contentauth_c2pa_rs_verif"));
                    if let Some((_, items)) = &m.content {
                        walk(items, want, out, consts, in_test || is_test);
                    }
                }
                _ => {}
            }
        }
    }
    walk(&file.items, &want, &mut out, &mut consts, false);
    for w in &want {
        if !out.contains_key(*w) {
            eprintln!("astdump: item not found: {}", w);
            std::process::exit(3);
        }
    }
    println!("{}", serde_json::to_string(&json!({"file":args[1],"fns":out,"consts":consts})).unwrap());
}

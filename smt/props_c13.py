"""C13 -- range hashing equals the digest of exactly the selected bytes.
Source executed symbolically: sdk/src/utils/hash_utils.rs hash_stream_by_alg_with_progress_impl
(the complete function, BOTH branches of `cfg!(target_arch = "wasm32")`) and the HashRange accessors.

Environment models (stubs; each is part of the claim):
  * the digest object is a RECORDER: `update(x)` appends x to a log, `Hasher::finalize` returns the log,
    so "digest of exactly the selected bytes" becomes "log == reference selection" (SHA-2 is a function
    of the byte sequence fed to it; the real Hasher::update/finalize are thin calls into sha2);
  * the stream is an in-memory byte string with a position (seek/rewind/read_exact/stream_len);
  * range_set::RangeSet is modelled by its specification: a sorted list of disjoint inclusive ranges,
    remove_range = set difference;
  * the worker thread of the read-ahead pipeline is run at spawn time and the channel is a one-slot
    mailbox (the pipeline hands the hasher over strictly once per chunk, so every schedule gives the
    same sequence of updates; true interleavings are outside the claim);
  * the progress callback records its (step, total) arguments.
"""
import z3

import bstr
from bstr import BStr, bv, b8, ult, ule, ugt, uge
from symex import (VStr, VInt, VBool, VStruct, VVec, VEnum, VUnit, VTuple, VPyFn, Effects, none, some, veq, opt, is_some, is_ok, ok, err,
                   TAG, ite, Unsupported)

FILES = ["/repo/sdk/src/utils/hash_utils.rs"]


def caps(tier):
    return dict(data=4, ranges=2) if tier == "quick" else dict(data=6, ranges=2)


# ------------------------------------------------------------------------------- stream model
def _stream_len(I, args, pc):
    return ok(VInt(args[0].fields["bytes"].e.n))


def _rewind(I, args, pc):
    s = args[0]
    return Effects(ok(VUnit()), recv=VStruct("Stream", {"bytes": s.fields["bytes"], "pos": VInt(0)}))


def _seek(I, args, pc):
    s, how = args[0], args[1]
    pos = how.payload["Start"][0]
    return Effects(ok(pos), recv=VStruct("Stream", {"bytes": s.fields["bytes"], "pos": pos}))


def _read_exact(I, args, pc):
    s, buf = args[0], args[1]
    data, pos, n = s.fields["bytes"].e, s.fields["pos"].e, buf.e.n
    fits = z3.And(ule(pos, data.n), ule(n, data.n - pos))
    got = bstr.substr(data, pos, n)
    got = BStr((got.b + [b8(0)] * buf.e.cap)[:buf.e.cap], n)
    newbuf = VStr(bstr.named(bstr.ite(fits, got, buf.e), I.side, "chunk"))
    news = VStruct("Stream", {"bytes": s.fields["bytes"], "pos": VInt(z3.If(fits, pos + n, pos))})
    ret = VEnum("Result", z3.If(fits, TAG("Result", "Ok"), TAG("Result", "Err")), {"Ok": [VUnit()], "Err": [VEnum("Error", TAG("Error", "IoError"), {})]})
    return Effects(ret, recv=news, args={1: newbuf})


# ------------------------------------------------------------------------------- recorder digest
def _new_hasher(I, args, pc):
    return VStruct("Recorder", {"log": VStr(bstr.lit(""))})


def _update(I, args, pc):
    h, x = args[0], args[1]
    inner = h.fields["0"]
    log = bstr.concat(inner.fields["log"].e, x.e, I.ob(pc))
    log = bstr.named(log, I.side, "log")
    return Effects(VUnit(), recv=VStruct(h.name, {"0": VStruct("Recorder", {"log": VStr(log)})}))


def _finalize(I, args, pc):
    return args[0].fields["0"].fields["log"]


# ------------------------------------------------------------------------------- RangeSet (by specification)
def _rng(lo, hi):
    return VStruct("RangeInclusive", {"start": lo, "end": hi})


def _rangeset_from(I, args, pc):
    r = args[0]
    return VStruct("RangeSet", {"items": VVec([r])})


def _remove_range(I, args, pc):
    rs, cut = args[0], args[1]
    a, b = cut.fields["start"].e, cut.fields["end"].e
    items = rs.fields["items"]
    pieces = []  # (present, lo, hi)
    for i, it in enumerate(items.items):
        ex = ult(bv(i), items.n)
        lo, hi = it.fields["start"].e, it.fields["end"].e
        overlap = z3.And(ule(a, hi), uge(b, lo), ule(a, b))
        # left remainder [lo, a-1], right remainder [b+1, hi], or the untouched range
        pieces.append((z3.And(ex, z3.Or(z3.Not(overlap), ult(lo, a))), lo, z3.If(overlap, a - bv(1), hi)))
        pieces.append((z3.And(ex, overlap, ult(b, hi)), b + bv(1), hi))
    # compaction (order preserved: pieces are produced left to right)
    rank = []
    r = bv(0)
    for pres, _, _ in pieces:
        rank.append(r)
        r = r + z3.If(pres, bv(1), bv(0))
    out = []
    for j in range(len(items.items) + 1):
        lo, hi = bv(0), bv(0)
        for (pres, l, h), rk in zip(pieces, rank):
            sel = z3.And(pres, rk == bv(j))
            lo, hi = z3.If(sel, l, lo), z3.If(sel, h, hi)
        out.append(_rng(VInt(lo), VInt(hi)))
    return Effects(VUnit(), recv=VStruct("RangeSet", {"items": VVec(out, r)}))


def _into_smallvec(I, args, pc):
    return args[0].fields["items"]


def _ri_new(I, args, pc):
    return _rng(args[0], args[1])


def _ri_contains(I, args, pc):
    r, x = args[0], args[1]
    return VBool(z3.And(ule(r.fields["start"].e, x.e), ule(x.e, r.fields["end"].e)))


# ------------------------------------------------------------------------------- thread / channel
def _channel(I, args, pc):
    return VTuple([VStruct("Sender", {}), VStruct("Receiver", {})])


def _builder(I, args, pc):
    return VStruct("ThreadBuilder", {})


def _builder_name(I, args, pc):
    return args[0]


def _spawn(I, args, pc):
    I.call_closure(args[1], [], pc)
    return ok(VStruct("JoinHandle", {}))


def _send(I, args, pc):
    I.mailbox = args[1]
    return ok(VUnit())


def _recv(I, args, pc):
    return ok(I.mailbox)


OVERRIDES = {
    "stream_len": _stream_len, "Stream::rewind": _rewind, "Stream::seek": _seek, "Stream::read_exact": _read_exact,
    "Sha256::new": _new_hasher, "Sha384::new": _new_hasher, "Sha512::new": _new_hasher,
    "SHA256::update": _update, "SHA384::update": _update, "SHA512::update": _update, "Hasher::finalize": _finalize,
    "RangeSet::from": _rangeset_from, "RangeSet::remove_range": _remove_range, "RangeSet::into_smallvec": _into_smallvec,
    "RangeInclusive::new": _ri_new, "RangeInclusive::contains": _ri_contains,
    "RangeInclusive::start": lambda I, a, pc: a[0].fields["start"], "RangeInclusive::end": lambda I, a, pc: a[0].fields["end"],
    "channel": _channel, "Builder::new": _builder, "ThreadBuilder::name": _builder_name, "ThreadBuilder::spawn": _spawn,
    "Sender::send": _send, "Receiver::recv": _recv,
}
TAG("SeekFrom", "Start")


# ------------------------------------------------------------------------------- reference selection
def select_positions(data, keep):
    """bytes data[p] for p in order with keep[p] (symbolic compaction)"""
    n = data.cap
    rank = []
    r = bv(0)
    for p in range(n):
        k = z3.And(ult(bv(p), data.n), keep[p])
        rank.append((k, r))
        r = r + z3.If(k, bv(1), bv(0))
    out = []
    for j in range(n):
        c = b8(0)
        for p, (k, rk) in enumerate(rank):
            c = z3.If(z3.And(k, rk == bv(j)), data.b[p], c)
        out.append(c)
    return BStr(out, r)


def make_queries(tier):
    C = caps(tier)

    def setup(E, nranges, wasm):
        I = E.I
        I.cfg_values['target_arch="wasm32"'] = wasm
        I.buffer_cap = C["data"]
        I.loop_bound = C["data"] + 1
        data = E.str("data", C["data"], "ascii", min_len=0)
        ranges = []
        for i in range(nranges):
            s = E.int("start%d" % i)
            l = E.int("length%d" % i)
            ranges.append((s, l))
        hr = VVec([VStruct("HashRange", {"start": s, "length": l, "bmff_offset": none()}) for s, l in ranges])
        maxbuf = E.int("max_hash_buf", C["data"])
        E.assume(uge(maxbuf.e, bv(1)))
        events = []

        def progress(I_, args, pc):
            events.append((pc, args[0].e, args[1].e))
            return ok(VUnit())
        stream = VStruct("Stream", {"bytes": data, "pos": VInt(0)})
        return data, ranges, hr, maxbuf, events, progress, stream

    def mk(nranges, exclusion, wasm):
        def q(E):
            if E.mode != "symbolic":
                return replay(E, nranges, exclusion)
            data, ranges, hr, maxbuf, events, progress, stream = setup(E, nranges, wasm)
            res = E.I.call("hash_stream_by_alg_with_progress_impl",
                           [VStr(bstr.lit("sha256")), stream, some(hr) if nranges else none(), VBool(exclusion), VPyFn(progress), maxbuf])
            good = is_ok(res)
            log = res.payload["Ok"][0].e
            d = data.e
            n = d.n
            fits = [z3.And(z3.BVAddNoOverflow(s.e, l.e, False), ule(s.e + l.e, n)) for s, l in ranges]
            reaching = [z3.And(ugt(l.e, bv(0)), z3.Not(f)) for (s, l), f in zip(ranges, fits)]
            E.prove("a range reaching past the end of the data is rejected with an error",
                    z3.Implies(z3.Or(reaching) if reaching else z3.BoolVal(False), z3.Not(good)))
            if exclusion:
                keep = [z3.And([z3.Not(z3.And(ugt(l.e, bv(0)), ule(s.e, bv(p)), ult(bv(p) - s.e, l.e))) for s, l in ranges] or [z3.BoolVal(True)])
                        for p in range(d.cap)]
                want = select_positions(d, keep)
            else:
                # inclusion: the ranges' bytes concatenated in order of start (stable)
                order = list(ranges)
                if nranges == 2:
                    swap = ult(order[1][0].e, order[0][0].e)
                    order = [(VInt(z3.If(swap, ranges[1][0].e, ranges[0][0].e)), VInt(z3.If(swap, ranges[1][1].e, ranges[0][1].e))),
                             (VInt(z3.If(swap, ranges[0][0].e, ranges[1][0].e)), VInt(z3.If(swap, ranges[0][1].e, ranges[1][1].e)))]
                want = bstr.lit("")
                for s, l in order:
                    piece = bstr.substr(d, s.e, l.e)
                    piece = BStr((piece.b + [b8(0)] * d.cap)[:d.cap], l.e)
                    want = bstr.concat(want, piece)
                if nranges == 0:
                    want = d
            all_fit = z3.And(fits) if fits else z3.BoolVal(True)
            E.prove("the digest input is exactly the selected bytes, in order", z3.Implies(z3.And(good, all_fit), bstr.eq(log, want)))
            E.prove("empty data is rejected", z3.Implies(n == bv(0), z3.Not(good)))
            # progress contract (C23's arithmetic lives here): 1 <= step <= total, strictly increasing by 1
            # (asserted for runs that succeed: a run that ends in an error for an oversized range may have computed a
            #  wrapped total before failing; the property speaks about steps of an operation, not of a rejected call)
            for i, (g, step, total) in enumerate(events):
                E.prove("progress call %d: 1 <= step <= total" % i, z3.Implies(z3.And(g, good, all_fit), z3.And(uge(step, bv(1)), ule(step, total))))
            if nranges:
                E.cover("accepted with a non-trivial selection", z3.And(good, ugt(log.n, bv(0)), ult(log.n, n)))
            E.cover("a multi-chunk range (internal buffer smaller than the range)", z3.And(good, ugt(log.n, maxbuf.e)))
            E.cover("rejected", z3.Not(good))
        q.__name__ = "q_hash_%dr_%s_%s" % (nranges, "excl" if exclusion else "incl", "seq" if wasm else "pipe")
        q.__doc__ = ("hash_stream_by_alg_with_progress_impl with %d %s range(s), %s branch: digest input == selected bytes for all data, "
                     "range values (full u64) and chunk sizes" % (nranges, "exclusion" if exclusion else "inclusion",
                                                                 "sequential (wasm32)" if wasm else "read-ahead pipeline"))
        return q

    def mk_marker(wasm, multibyte):
        def q(E):
            if E.mode != "symbolic":
                return replay_marker(E)
            I = E.I
            I.cfg_values['target_arch="wasm32"'] = wasm
            I.buffer_cap = C["data"]
            I.loop_bound = C["data"] + 1
            data = E.str("data", min(C["data"], 4), "ascii", min_len=1)
            d, n = data.e, data.e.n
            s0, l0 = E.int("start0"), E.int("length0")
            off = E.int("marker_offset")
            if multibyte:
                # twin of the full query with the region of known finding C13-marker-single-byte-run assumed away:
                # the included run that starts at the marker has at least two bytes
                E.assume(z3.And(ult(off.e + bv(1), n), z3.Not(z3.And(ugt(l0.e, bv(0)), s0.e == off.e + bv(1)))))
            # the exclusion fits; the marker sits on an INCLUDED position (what the SDK produces: offsets of
            # top-level boxes that are hashed); markers on excluded positions are left unspecified
            E.assume(z3.And(z3.BVAddNoOverflow(s0.e, l0.e, False), ule(s0.e + l0.e, n), ult(off.e, n)))
            E.assume(z3.Not(z3.And(ugt(l0.e, bv(0)), ule(s0.e, off.e), ult(off.e - s0.e, l0.e))))
            hr = VVec([VStruct("HashRange", {"start": s0, "length": l0, "bmff_offset": none()}),
                       VStruct("HashRange", {"start": off, "length": VInt(1), "bmff_offset": some(off)})])
            maxbuf = E.int("max_hash_buf", C["data"])
            E.assume(uge(maxbuf.e, bv(1)))
            events = []

            def progress(I_, args, pc):
                events.append((pc, args[0].e, args[1].e))
                return ok(VUnit())
            stream = VStruct("Stream", {"bytes": data, "pos": VInt(0)})
            res = I.call("hash_stream_by_alg_with_progress_impl",
                         [VStr(bstr.lit("sha256")), stream, some(hr), VBool(True), VPyFn(progress), maxbuf])
            good = is_ok(res)
            log = res.payload["Ok"][0].e
            included = [z3.Not(z3.And(ugt(l0.e, bv(0)), ule(s0.e, bv(p)), ult(bv(p) - s0.e, l0.e))) for p in range(d.cap)]
            before = select_positions(d, [z3.And(included[p], ult(bv(p), off.e)) for p in range(d.cap)])
            after = select_positions(d, [z3.And(included[p], uge(bv(p), off.e)) for p in range(d.cap)])
            be = BStr([z3.Extract(63 - 8 * i, 56 - 8 * i, off.e) for i in range(8)], bv(8))
            want = bstr.concat(bstr.concat(before, be), after)
            E.prove("a well-formed exclusion + marker list is accepted", good)
            E.prove("digest input = selected bytes with the 8-byte big-endian offset inserted at the marker position", z3.Implies(good, bstr.eq(log, want)))
            for i, (g, step, total) in enumerate(events):
                E.prove("progress site %d: 1 <= step <= total" % i, z3.Implies(z3.And(g, good), z3.And(uge(step, bv(1)), ule(step, total))))
            E.cover("marker in the middle of an included run", z3.And(good, ugt(off.e, bv(0)), ugt(before.n, bv(0)), ugt(after.n, bv(1))))
            if not multibyte:
                E.cover("marker on an included run of exactly one byte", z3.And(good, l0.e != bv(0), s0.e == off.e + bv(1)))
        q.__name__ = "q_hash_marker_excl_%s%s" % ("multibyte_run_" if multibyte else "", "seq" if wasm else "pipe")
        q.__doc__ = "one exclusion range + one BMFF v2 offset marker on an included position%s (%s branch)" % (
            ", the included run at the marker having >= 2 bytes" if multibyte else "", "sequential" if wasm else "pipeline")
        return q

    qs = []
    if tier == "thorough":
        for wasm in (True, False):
            qs.append(mk_marker(wasm, False))
            qs.append(mk_marker(wasm, True))
    for wasm in (True, False):
        qs.append(mk(0, True, wasm))
        for nr in range(1, C["ranges"] + 1):
            for excl in (True, False):
                qs.append(mk(nr, excl, wasm))
    return qs


def replay(E, nranges, exclusion):
    """native replay through the cfg-guarded hook (real SHA-256, real RangeSet, real threads)"""
    mi = E.model_inputs
    rs = [[mi["start%d" % i], mi["length%d" % i]] for i in range(nranges)]
    data = mi["data"].encode("latin-1")
    n = len(data)
    reaching = any(l > 0 and (s + l > n) for s, l in rs)
    fits = all(s + l <= n for s, l in rs)
    if exclusion:
        want = bytes(b for p, b in enumerate(data) if not any(l > 0 and s <= p < s + l for s, l in rs))
    else:
        want = b"".join(data[s:s + l] for s, l in sorted(rs, key=lambda x: x[0])) if nranges else data
    r = E.native("hash_ranges", [mi["data"], rs if nranges else None, exclusion, mi.get("max_hash_buf", 1), want.hex()])
    E.prove("a range reaching past the end of the data is rejected with an error", z3.BoolVal((not reaching) or not r["ok"]))
    E.prove("the digest input is exactly the selected bytes, in order", z3.BoolVal((not (r["ok"] and fits)) or bool(r.get("matches_expected"))))
    E.prove("empty data is rejected", z3.BoolVal(n != 0 or not r["ok"]))
    for i, (st, tot) in enumerate(r.get("steps", [])):
        E.prove("progress call %d: 1 <= step <= total" % i, z3.BoolVal((not (r["ok"] and fits)) or (1 <= st <= tot)))


def replay_marker(E):
    mi = E.model_inputs
    data = mi["data"].encode("latin-1")
    s0, l0, off = mi["start0"], mi["length0"], mi["marker_offset"]
    inc = [not (l0 > 0 and s0 <= p < s0 + l0) for p in range(len(data))]
    want = bytes(b for p, b in enumerate(data) if inc[p] and p < off) + off.to_bytes(8, "big") + bytes(b for p, b in enumerate(data) if inc[p] and p >= off)
    r = E.native("hash_ranges", [mi["data"], [[s0, l0], [off, 1, off]], True, mi.get("max_hash_buf", 1), want.hex()])
    E.prove("a well-formed exclusion + marker list is accepted", z3.BoolVal(bool(r["ok"])))
    E.prove("digest input = selected bytes with the 8-byte big-endian offset inserted at the marker position",
            z3.BoolVal((not r["ok"]) or bool(r.get("matches_expected"))))


NATIVE_MAP = {}
VECTORS = []

"""./check <ID> --replay <file.json>: re-run saved Engine-Z counterexamples against the real functions."""
import importlib
import json
import os
import sys

HERE = os.path.dirname(os.path.abspath(__file__))
sys.path.insert(0, HERE)
import engine  # noqa: E402


def run_replay_file(path):
    if not os.path.exists(path):
        return False, "replay file not found: %s" % path
    d = json.load(open(path))
    ok, msg = engine.build_tools()
    if not ok:
        return False, "cannot build the native runner: " + msg
    mod = importlib.import_module(d["module"])
    lits = getattr(mod, "LITS", None)
    if callable(lits):
        lits = lits()
    qs = [q for q in mod.make_queries(d.get("tier", "quick")) if q.__name__ == d["query"]]
    if not qs:
        return False, "query %s no longer exists" % d["query"]
    viol = False
    msgs = []
    for cx in d["counterexamples"]:
        rep, detail = engine.replay_counterexample(qs[0], mod.FILES, cx["inputs"], cx["obligation"], cx["kind"],
                                                   native_map=getattr(mod, "NATIVE_MAP", {}), lits=lits)
        msgs.append("%s: %s  inputs=%s %s" % ("REPRODUCED natively" if rep else "not reproduced", cx["obligation"],
                                              json.dumps(cx["inputs"]), detail.get("note", "")))
        viol = viol or rep
    return viol, "\n".join(msgs)

"""C17 (kernel) -- BMFF mdat hashing is independent of how the payload is chunked.
Source executed symbolically: sdk/src/utils/merkle.rs MerkleAccumulator::add_merkle_leaf (the leaf
accumulation and mdat-header skipping every incremental caller goes through).

With a fixed leaf size F the recorded Merkle leaves must depend only on the concatenated payload:
feeding  header(8 bytes) ++ payload  in one call or split at arbitrary points into two or three calls
must leave the accumulator with the same leaves and the same buffered remainder.

Models: the two maps are keyed by ONE mdat id (a map is `present` + value); `hash_by_alg` is the
identity recorder (a leaf "digest" is the leaf's bytes), so equal leaves <=> equal digest inputs;
std::io::Cursor is the in-memory stream of C13.  The leaf size F is symbolic and small (1..=4 bytes):
the routine only compares and subtracts sizes, it never relies on F being a multiple of 1024.
"""
import z3

import bstr
from bstr import BStr, bv, b8, ult, ule, ugt, uge
from symex import (VStr, VInt, VBool, VStruct, VVec, VEnum, VUnit, VTuple, VRefPlace, Effects, none, some, veq, opt, is_some, is_ok, ok,
                   TAG, ite, Unsupported, VUninit)
import props_c13

FILES = ["/repo/sdk/src/utils/merkle.rs"]


def caps(tier):
    return dict(payload=6, fmax=3, payload2=6) if tier == "quick" else dict(payload=8, fmax=4, payload2=6)


# ---- one-key map model --------------------------------------------------------------------------
def _map(has, val):
    return VStruct("Map", {"has": VBool(has), "val": val})


def _contains_key(I, args, pc):
    return args[0].fields["has"]


def _get_mut(I, args, pc):
    e, recv_ast = I.current_call
    place = {"k": "field", "base": recv_ast, "member": "val"}
    m = args[0]
    return VEnum("Option", z3.If(m.fields["has"].e, TAG("Option", "Some"), TAG("Option", "None")), {"Some": [VRefPlace(place)]})


def _get(I, args, pc):
    m = args[0]
    return VEnum("Option", z3.If(m.fields["has"].e, TAG("Option", "Some"), TAG("Option", "None")), {"Some": [m.fields["val"]]})


def _insert(I, args, pc):
    return Effects(none(), recv=_map(z3.BoolVal(True), args[2]))


def _remove(I, args, pc):
    m = args[0]
    return Effects(none(), recv=_map(z3.BoolVal(False), m.fields["val"]))


def _entry(I, args, pc):
    e, recv_ast = I.current_call
    return VStruct("Entry", {"map": args[0], "place": VRefPlace(recv_ast)})


def _and_modify(I, args, pc):
    ent, clo = args[0], args[1]
    m = ent.fields["map"]
    has = m.fields["has"].e
    newvals = I.call_closure_env(clo, [m.fields["val"]], z3.And(pc, has))
    nv = newvals[0] if newvals and newvals[0] is not None else m.fields["val"]
    return VStruct("Entry", {"map": _map(has, ite(has, nv, m.fields["val"])), "place": ent.fields["place"]})


def _or_insert(I, args, pc):
    ent, dflt = args[0], args[1]
    m = ent.fields["map"]
    has = m.fields["has"].e
    newmap = _map(z3.BoolVal(True), ite(has, m.fields["val"], dflt))
    return Effects(VUnit(), places=[(ent.fields["place"].place, newmap)])


def _cursor_new(I, args, pc):
    return VStruct("Stream", {"bytes": args[0], "pos": VInt(0)})


def _hash_by_alg(I, args, pc):
    return args[1]  # identity recorder: the leaf digest is the leaf's bytes


OVERRIDES = {
    "Map::contains_key": _contains_key, "Map::get": _get, "Map::get_mut": _get_mut, "Map::insert": _insert, "Map::remove": _remove,
    "Map::entry": _entry, "Entry::and_modify": _and_modify, "Entry::or_insert": _or_insert,
    "Cursor::new": _cursor_new, "Stream::read_exact": props_c13._read_exact,
    "hash_by_alg": _hash_by_alg,
}


def fresh_acc(F):
    return VStruct("MerkleAccumulator", {
        "alg": VStr(bstr.lit("sha256")),
        "merkle_leaves": _map(z3.BoolVal(False), VVec([])),
        "fixed_size": some(F),
        "fixed_size_remainder": _map(z3.BoolVal(False), VStr(bstr.lit(""))),
        "mdat_header_skipped": _map(z3.BoolVal(False), VInt(0)),
    })


def feed(E, acc, chunk, large):
    """acc.add_merkle_leaf(0, large, chunk) -> (new acc, result)"""
    I = E.I
    env = {"acc": acc, "chunk": chunk, "large": large}
    ast = {"k": "mcall", "line": 0, "recv": {"k": "path", "path": "acc"}, "method": "add_merkle_leaf", "turbofish": None,
           "args": [{"k": "lit", "ty": "int", "value": "0", "suffix": ""}, {"k": "path", "path": "large"}, {"k": "path", "path": "chunk"}]}
    I.frames.append(__import__("symex").Frame("<driver>"))
    try:
        r, env2, pc2 = I.eval(ast, env, z3.BoolVal(True))
    finally:
        I.frames.pop()
    return env2["acc"], r


def leaves_equal(a, b):
    """same recorded leaves (length + bytes) and same buffered remainder"""
    la, lb = a.fields["merkle_leaves"], b.fields["merkle_leaves"]
    ra, rb = a.fields["fixed_size_remainder"], b.fields["fixed_size_remainder"]
    va, vb = la.fields["val"], lb.fields["val"]
    na = z3.If(la.fields["has"].e, va.n, bv(0))
    nb = z3.If(lb.fields["has"].e, vb.n, bv(0))
    conds = [na == nb]
    for i in range(min(len(va.items), len(vb.items))):
        x, y = va.items[i], vb.items[i]
        conds.append(z3.Implies(ult(bv(i), na), z3.And(x.items[0].e == y.items[0].e, bstr.eq(x.items[1].e, y.items[1].e))))
    if len(va.items) != len(vb.items):
        conds.append(ule(na, bv(min(len(va.items), len(vb.items)))))
    # remainder: absent == present-but-empty is NOT assumed; compare the buffered bytes
    rem_a = bstr.ite(ra.fields["has"].e, ra.fields["val"].e, bstr.lit(""))
    rem_b = bstr.ite(rb.fields["has"].e, rb.fields["val"].e, bstr.lit(""))
    conds.append(bstr.eq(rem_a, rem_b))
    return z3.And(conds)


def make_queries(tier):
    C = caps(tier)

    def mk(nsplits, large):
        def q(E):
            if E.mode != "symbolic":
                return replay(E, nsplits, large)
            I = E.I
            PAY = C["payload"] if nsplits == 1 else C["payload2"]   # two symbolic cut points: the smaller stated bound
            I.buffer_cap = 8 + PAY
            # standard header: the caller feeds the 8-byte size/type header followed by the payload and the routine
            # skips it; large (64-bit) header: the routine skips nothing, the caller feeds the payload only
            total_cap = (0 if large else 8) + PAY
            I.loop_bound = total_cap + 2
            whole = E.str("mdat", total_cap, "ascii", min_len=(1 if large else 8))
            F = E.int("leaf_size", C["fmax"])
            E.assume(uge(F.e, bv(1)))
            cuts = [E.int("cut%d" % i, total_cap) for i in range(nsplits)]
            n = whole.e.n
            prev = bv(0)
            chunks = []
            for c in cuts:
                E.assume(z3.And(uge(c.e, prev), ule(c.e, n)))
                chunks.append(VStr(bstr.substr(whole.e, prev, c.e - prev)))
                prev = c.e
            chunks.append(VStr(bstr.substr(whole.e, prev, n - prev)))
            # callers feed non-empty pieces
            for ch in chunks:
                E.assume(ugt(ch.e.n, bv(0)))
            ref_acc, ref_r = feed(E, fresh_acc(F), whole, VBool(large))
            acc = fresh_acc(F)
            oks = []
            for ch in chunks:
                acc, r = feed(E, acc, VStr(bstr.named(ch.e, I.side, "piece")), VBool(large))
                oks.append(is_ok(r))
            E.prove("feeding the whole mdat in one call succeeds", is_ok(ref_r))
            E.prove("feeding it in pieces succeeds", z3.And(oks))
            E.prove("the recorded leaves and the buffered remainder do not depend on the split", leaves_equal(ref_acc, acc))
            hdr = 0 if large else 8
            if not large:
                E.cover("first piece shorter than the mdat header", ult(cuts[0].e, bv(hdr)))
            E.cover("a split inside a leaf", z3.And(ugt(cuts[0].e, bv(hdr)), z3.URem(cuts[0].e - bv(hdr), F.e) != bv(0)))
            E.cover("at least two leaves recorded", uge(ref_acc.fields["merkle_leaves"].fields["val"].n, bv(2)))
        q.__name__ = "q_leaf_split_%d_%s" % (nsplits, "large" if large else "std")
        q.__doc__ = ("add_merkle_leaf with a fixed leaf size: %s mdat header + payload fed whole vs. split at %d symbolic point(s)" %
                     ("large (16-byte)" if large else "standard (8-byte)", nsplits))
        return q

    qs = [mk(1, False), mk(1, True)]
    if tier == "thorough":
        qs += [mk(2, False), mk(2, True)]
    return qs


def replay(E, nsplits, large):
    mi = E.model_inputs
    data = mi["mdat"]
    cuts = [mi["cut%d" % i] for i in range(nsplits)]
    r = E.native("merkle_accumulate", [data, cuts, large, mi["leaf_size"]])
    E.prove("feeding the whole mdat in one call succeeds", z3.BoolVal(bool(r["whole_ok"])))
    E.prove("feeding it in pieces succeeds", z3.BoolVal(bool(r["pieces_ok"])))
    E.prove("the recorded leaves and the buffered remainder do not depend on the split", z3.BoolVal(bool(r["same"])))


NATIVE_MAP = {}
VECTORS = []

"""C27 (string layer) -- redirect targets written as names or literals never reach internal hosts,
and credential headers are never forwarded.  Sources executed symbolically:
sdk/src/http/restricted.rs host_is_non_global, normalize_host, looks_like_obfuscated_ip,
build_redirected_request.

Composition with the Kani harnesses of C27: Kani decides, for ALL 2^32 / 2^128 addresses, that the
numeric classifier (ipv4_is_non_global / ipv6_is_non_global) blocks every address of the
property's prefix table.  Here `ip_is_non_global` is therefore a stub constrained only by that
result (table(addr) => true, otherwise arbitrary), and z3 decides that every TEXTUAL form of a
host is either routed to the classifier with the right address or blocked outright.
`str::parse::<IpAddr>` is modelled: dotted-decimal IPv4 exactly as std (4 octets, 1-3 digits each,
no leading zeros, <= 255); anything containing ':' made only of hex digits, ':' and '.' MAY parse as
an IPv6 address with an arbitrary classifier verdict (over-approximation).
"""
import re

import z3

import bstr
from bstr import b8, bv, uge, ule, ult, ugt
from symex import VStr, VBool, VChar, VInt, VStruct, VVec, VEnum, VTuple, VUnit, none, some, veq, opt, is_some, is_ok, ok, TAG, Unsupported

FILES = ["/repo/sdk/src/http/restricted.rs"]


def caps(tier):
    return dict(host=12, hdr=20) if tier == "quick" else dict(host=20, hdr=24)


# ---------------------------------------------------------------- reference table (property text)
def table_v4(o):
    """o = four BV8 octets -> Bool: the address is one the property says must never be reached"""
    a, b, c, d = o
    def eq(x, v):
        return x == b8(v)
    return z3.Or(
        eq(a, 0), eq(a, 10), eq(a, 127),
        z3.And(eq(a, 100), (b & b8(0xc0)) == b8(64)),
        z3.And(eq(a, 169), eq(b, 254)),
        z3.And(eq(a, 172), (b & b8(0xf0)) == b8(16)),
        z3.And(eq(a, 192), eq(b, 0), eq(c, 2)),
        z3.And(eq(a, 192), eq(b, 168)),
        z3.And(eq(a, 198), eq(b, 51), eq(c, 100)),
        z3.And(eq(a, 203), eq(b, 0), eq(c, 113)),
        (a & b8(0xf0)) == b8(224),
        z3.And(eq(a, 255), eq(b, 255), eq(c, 255), eq(d, 255)),
    )


# ---------------------------------------------------------------- model of str::parse::<IpAddr>
def parse_ipv4_model(s):
    """-> (ok, [4 octets BV8]) following std's Ipv4Addr::from_str"""
    parts, n = bstr.split(s, bstr.lit("."), 4)
    conds = [n == bv(4)]
    octs = []
    for p in parts[:4]:
        ln = p.n
        conds.append(z3.And(uge(ln, bv(1)), ule(ln, bv(3))))
        conds.append(bstr.all_bytes(p, bstr.is_digit))
        # no leading zero unless the octet is exactly "0"
        first = p.b[0] if p.cap > 0 else b8(0)
        conds.append(z3.Or(ln == bv(1), first != b8(0x30)))
        val = z3.BitVecVal(0, 16)
        for i in range(min(3, p.cap)):
            dig = z3.ZeroExt(8, p.b[i] - b8(0x30))
            val = z3.If(ult(bv(i), ln), val * z3.BitVecVal(10, 16) + dig, val)
        conds.append(z3.ULE(val, z3.BitVecVal(255, 16)))
        octs.append(z3.Extract(7, 0, val))
    return z3.And(conds), octs


_cnt = [0]


def parse_ipaddr_model(I, s, pc):
    okv4, octs = parse_ipv4_model(s.e)
    _cnt[0] += 1
    maybe_v6 = z3.Bool("ipv6_parses!%d" % _cnt[0])
    hexish = bstr.all_bytes(s.e, lambda c: z3.Or(bstr.is_digit(c), z3.And(uge(c, b8(0x61)), ule(c, b8(0x66))),
                                                  z3.And(uge(c, b8(0x41)), ule(c, b8(0x46))), c == b8(0x3a), c == b8(0x2e)))
    v6 = z3.And(maybe_v6, z3.Not(okv4), bstr.contains(s.e, bstr.lit(":")), hexish, uge(s.e.n, bv(2)))
    good = z3.Or(okv4, v6)
    ip = VStruct("IpAddr", {"is_v4": VBool(okv4), "o0": VChar(octs[0]), "o1": VChar(octs[1]), "o2": VChar(octs[2]), "o3": VChar(octs[3])})
    return VEnum("Result", z3.If(good, TAG("Result", "Ok"), TAG("Result", "Err")), {"Ok": [ip], "Err": [VUnit()]})


def ip_is_non_global_stub(I, args, pc):
    """what the Kani harnesses of C27 establish about the numeric classifier: table => blocked"""
    ip = args[0]
    _cnt[0] += 1
    free = z3.Bool("classifier_verdict!%d" % _cnt[0])
    t = table_v4([ip.fields["o0"].e, ip.fields["o1"].e, ip.fields["o2"].e, ip.fields["o3"].e])
    return VBool(z3.If(ip.fields["is_v4"].e, z3.Or(t, free), free))


def _uri_host(I, args, pc):
    return args[0].fields["host"]


OVERRIDES = {
    "Uri::host": _uri_host,
    "ip_is_non_global": ip_is_non_global_stub,
    "parse:IpAddr": parse_ipaddr_model,
}


# ---------------------------------------------------------------- header-name constants of the http crate
def LITS():
    """http::header::{HOST, AUTHORIZATION, COOKIE, PROXY_AUTHORIZATION} read from the http crate's source"""
    import glob
    out = {}
    want = {"HOST", "AUTHORIZATION", "COOKIE", "PROXY_AUTHORIZATION", "LOCATION"}
    for f in sorted(glob.glob("/root/.cargo/registry/src/*/http-1.*/src/header/name.rs")):
        txt = open(f, errors="replace").read()
        for m in re.finditer(r'\(\s*(\w+)\s*,\s*([A-Z_]+)\s*,\s*b"([^"]+)"\s*\)', txt):
            if m.group(2) in want:
                out[m.group(2)] = VStr(bstr.lit(m.group(3)))
        if len(out) >= 4:
            break
    return out


def uri_with_host(h):
    return VStruct("Uri", {"host": some(h)})


def host_charset(c):
    return z3.Or(z3.And(uge(c, b8(0x61)), ule(c, b8(0x7a))), z3.And(uge(c, b8(0x41)), ule(c, b8(0x5a))),
                 bstr.is_digit(c), c == b8(0x2e), c == b8(0x2d))


def dotted(octs, side):
    """decimal dotted-quad text of four BV8 octets"""
    parts = []
    for i, o in enumerate(octs):
        parts.append(bstr.int_to_str(z3.ZeroExt(56, o), side, 255))
        if i < 3:
            parts.append(bstr.lit("."))
    return bstr.concat_many(parts)


def make_queries(tier):
    C = caps(tier)

    def q_localhost_names(E):
        """localhost written in any case, with sub-domain labels and/or a trailing dot, is blocked"""
        name = E.str("name", 9, "graph", min_len=9)
        E.assume(bstr.eq(bstr.lower(name.e), bstr.lit("localhost")))
        sub = E.str("sub", C["host"] - 9, "graph")
        E.assume(bstr.all_bytes(sub.e, host_charset))
        # sub is empty or a label sequence ending with '.'
        E.assume(z3.Or(sub.e.n == bv(0), bstr.suffixof(bstr.lit("."), sub.e)))
        # at most four sub-domain labels (keeps `split('.')` within the modelled number of parts; stated bound)
        ndots = bv(0)
        for i, c in enumerate(sub.e.b):
            ndots = ndots + z3.If(z3.And(ult(bv(i), sub.e.n), c == b8(0x2e)), bv(1), bv(0))
        E.assume(ule(ndots, bv(4)))
        dot = E.bool("trailing_dot")
        host = VStr(bstr.concat_many([sub.e, name.e, bstr.ite(dot.e, bstr.lit("."), bstr.lit(""))]))
        r = E.call("host_is_non_global", uri_with_host(host))
        E.prove("a localhost name is never a valid redirect target", r.e)
        E.cover("upper-case LOCALHOST with trailing dot", z3.And(dot.e, name.e.b[0] == b8(0x4c)))
        E.cover("sub-domain of localhost", ugt(sub.e.n, bv(2)))

    def q_missing_host(E):
        """a target without host is refused"""
        r = E.call("host_is_non_global", VStruct("Uri", {"host": none()}))
        E.prove("no host => refused", r.e)
        E.cover("reached", z3.BoolVal(True))

    def q_ipv4_literal(E):
        """a dotted-decimal IPv4 literal of an internal address (optionally with trailing dot / upper case n/a) is blocked"""
        octs = [z3.BitVec("o%d" % i, 8) for i in range(4)]
        if E.mode == "replay":
            octs = [b8(E.model_inputs["o%d" % i]) for i in range(4)]
        for i in range(4):
            E.inputs["o%d" % i] = ("int", VInt(z3.ZeroExt(56, octs[i])))
        side = E.I.side if E.mode == "symbolic" else []
        txt = dotted(octs, side)
        if E.mode == "replay":
            txt = bstr.lit(".".join(str(E.model_inputs["o%d" % i]) for i in range(4)))
        dot = E.bool("trailing_dot")
        host = VStr(bstr.concat(txt, bstr.ite(dot.e, bstr.lit("."), bstr.lit(""))))
        r = E.call("host_is_non_global", uri_with_host(host))
        E.prove("an IPv4 literal of a non-global address is refused", z3.Implies(table_v4(octs), r.e))
        E.cover("CGNAT literal with trailing dot", z3.And(dot.e, octs[0] == b8(100), octs[1] == b8(127)))
        E.cover("a global literal may pass", z3.And(z3.Not(r.e), z3.Not(table_v4(octs))))

    def q_obfuscated_numeric(E):
        """a host made only of digits and dots is refused unless it is a well-formed global IPv4 literal"""
        h = E.str("host", C["host"], "graph", min_len=1)
        E.assume(bstr.all_bytes(h.e, lambda c: z3.Or(bstr.is_digit(c), c == b8(0x2e))))
        E.assume(bstr.any_byte(h.e, bstr.is_digit))  # numeric: at least one digit ("." alone is the DNS root, not a number)
        from props_c34 import max_occurrences
        E.assume(max_occurrences(h, ".", 5))
        r = E.call("host_is_non_global", uri_with_host(h))
        stripped = bstr.ite(bstr.suffixof(bstr.lit("."), h.e), bstr.substr(h.e, bv(0), h.e.n - bv(1)), h.e)
        okv4, octs = parse_ipv4_model(stripped)
        E.prove("numeric host refused unless a well-formed global IPv4 literal", z3.Or(r.e, z3.And(okv4, z3.Not(table_v4(octs)))))
        E.cover("decimal integer form (2130706433-like)", z3.And(r.e, z3.Not(bstr.contains(h.e, bstr.lit(".")))))
        E.cover("short form 127.1", z3.And(r.e, bstr.prefixof(bstr.lit("127."), h.e), ule(h.e.n, bv(5))))
        E.cover("octal-looking form", z3.And(r.e, bstr.prefixof(bstr.lit("0177."), h.e)))

    def q_hex_labels(E):
        """a host with a 0x/0X label in any position is refused"""
        a = E.str("before", 6, "graph")
        b = E.str("after", C["host"] - 8, "graph")
        for v in (a, b):
            E.assume(bstr.all_bytes(v.e, lambda c: z3.And(host_charset(c))))
        E.assume(z3.Or(a.e.n == bv(0), bstr.suffixof(bstr.lit("."), a.e)))
        from props_c34 import max_occurrences
        E.assume(max_occurrences(a, ".", 2))
        E.assume(max_occurrences(b, ".", 2))
        upper = E.bool("upper_x")
        host = VStr(bstr.concat_many([a.e, bstr.ite(upper.e, bstr.lit("0X"), bstr.lit("0x")), b.e]))
        r = E.call("host_is_non_global", uri_with_host(host))
        E.prove("hex-form label refused", r.e)
        E.cover("hex label in the second position", ugt(a.e.n, bv(1)))

    def q_headers(E):
        """build_redirected_request never forwards Host, Authorization, Cookie, Proxy-Authorization"""
        names = []
        hdrs = []
        for i in range(3):
            n = E.str("name%d" % i, C["hdr"], "graph", min_len=1)
            # http::HeaderName is always lower case: token characters
            E.assume(bstr.all_bytes(n.e, lambda c: z3.Or(z3.And(uge(c, b8(0x61)), ule(c, b8(0x7a))), bstr.is_digit(c), c == b8(0x2d), c == b8(0x5f))))
            names.append(n)
            hdrs.append(VTuple([n, VStr(bstr.lit("v%d" % i))]))
        cnt = E.int("header_count", 3)
        # a HeaderMap keeps the values of one header together: equal names are adjacent
        E.assume(z3.Implies(bstr.eq(names[0].e, names[2].e), bstr.eq(names[0].e, names[1].e)))
        hm = VStruct("HeaderMap", {"items": VVec(hdrs, cnt.e)})
        if E.mode == "symbolic":
            res = E.call("build_redirected_request", VStruct("Method", {}), hm, VVec([]), VStruct("Uri", {"host": none()}))
            req = res.payload["Ok"][0]
            out = req.fields["headers"]
            forwarded = lambda lit_: z3.Or([z3.And(ult(bv(j), out.n), bstr.eq(out.items[j].items[0].e, bstr.lit(lit_))) for j in range(len(out.items))] or [z3.BoolVal(False)])
            n_out = out.n
        else:
            import symex as _sx
            k = _sx.concrete(cnt)
            r = E.native("redirect_forwarded_headers", [[[_sx.concrete(names[i]), "v%d" % i] for i in range(k)]])
            got = r.get("names", [])
            forwarded = lambda lit_: z3.BoolVal(lit_ in got)
            n_out = bv(len(got))
        for h in ("host", "authorization", "cookie", "proxy-authorization"):
            E.prove("header %s is never forwarded to the redirect target" % h, z3.Not(forwarded(h)))
        E.cover("three headers, one dropped", z3.And(cnt.e == bv(3), n_out == bv(2)))
        E.cover("an innocuous header is forwarded", z3.And(cnt.e == bv(1), n_out == bv(1)))

    def q_redirect_loop(E, entry="<RedirectResolver as SyncHttpResolver>::http_resolve"):
        """RedirectResolver::http_resolve: at most ten redirects are followed, none when redirects are disabled,
        and a hop is re-issued only to a target that host_is_non_global did not flag"""
        if E.mode != "symbolic":
            return replay_redirects(E)
        I = E.I
        allow = E.bool("allow_redirects")
        HOPS = 12
        is_redirect = [E.bool("hop%d_is_redirect" % i) for i in range(HOPS)]
        target_internal = [E.bool("hop%d_target_internal" % i) for i in range(HOPS)]
        transport_err = [E.bool("hop%d_transport_error" % i) for i in range(HOPS)]
        loc_relative = [E.bool("hop%d_location_relative" % i) for i in range(HOPS)]  # "/next" vs "http://example.com/next"
        calls = []       # guards of transport calls, in order
        hop_targets = []  # (guard of "re-issue to this target", target_internal flag)

        def transport(I_, args, pc):
            k = len(calls)
            calls.append(pc)
            if k >= HOPS:
                raise Exception("more transport call sites than modelled hops")
            resp = VStruct("Response", {"redirect": is_redirect[k], "hop": VInt(k)})
            return VEnum("Result", z3.If(transport_err[k].e, TAG("Result", "Err"), TAG("Result", "Ok")), {"Ok": [resp], "Err": [VEnum("Error", TAG("Error", "Transport"), {})]})

        def redirect_location(I_, args, pc):
            resp = args[0]
            k = bstr.cval(resp.fields["hop"].e)
            return opt(resp.fields["redirect"].e, VStr(bstr.ite(loc_relative[k].e, bstr.lit("/next"), bstr.lit("http://example.com/next"))))

        def resolve_target(I_, args, pc):
            return ok(VStruct("Uri", {"host": some(VStr(bstr.lit("h"))), "marker": VInt(len(hop_targets))}))

        def host_check(I_, args, pc):
            k = len(hop_targets)
            hop_targets.append((pc, target_internal[min(k, HOPS - 1)]))
            return target_internal[min(k, HOPS - 1)]

        def build_req(I_, args, pc):
            return ok(VStruct("Request", {"uri": args[3]}))
        for name, fn in (("Transport::http_resolve", transport), ("Transport::http_resolve_async", transport), ("redirect_location", redirect_location),
                         ("resolve_redirect_target", resolve_target), ("host_is_non_global", host_check),
                         ("build_redirected_request", build_req), ("sanitize_for_log", lambda I_, a, pc: VStr(bstr.lit("<log>"))),
                         ("Request::uri", lambda I_, a, pc: a[0].fields["uri"]), ("Request::method", lambda I_, a, pc: VUnit()),
                         ("Request::headers", lambda I_, a, pc: VUnit()), ("Request::body", lambda I_, a, pc: VUnit()),
                         ("Uri::to_string", lambda I_, a, pc: VStr(bstr.lit("<uri>"))), ("Uri::clone", lambda I_, a, pc: a[0])):
            I.overrides[name] = fn
        resolver = VStruct("RedirectResolver", {"inner": VStruct("Transport", {}), "allow_redirects": allow})
        req = VStruct("Request", {"uri": VStruct("Uri", {"host": some(VStr(bstr.lit("start"))), "marker": VInt(99)})})
        res = E.call(entry, resolver, req)
        n_calls = bv(0)
        for g in calls:
            n_calls = n_calls + z3.If(g, bv(1), bv(0))
        E.prove("at most eleven transport calls (the request plus ten redirects)", ule(n_calls, bv(11)))
        E.prove("with redirects disabled the transport is called exactly once", z3.Implies(z3.Not(allow.e), n_calls == bv(1)))
        E.prove("with redirects disabled a redirect response is an error", z3.Implies(z3.And(z3.Not(allow.e), is_redirect[0].e, z3.Not(transport_err[0].e)), z3.Not(is_ok(res))))
        for i in range(1, len(calls)):
            # the (i)th transport call re-issues to the target validated by the (i-1)th host check
            if i - 1 < len(hop_targets):
                E.prove("hop %d is re-issued only to a target that passed the internal-address check" % i,
                        z3.Implies(calls[i], z3.And(hop_targets[i - 1][0], z3.Not(hop_targets[i - 1][1].e))))
            else:
                E.prove("hop %d is re-issued only after a target check" % i, z3.Not(calls[i]))
        E.prove("an endless redirect chain ends in an error", z3.Implies(z3.And(allow.e, z3.And([z3.And(r.e, z3.Not(t.e), z3.Not(x.e)) for r, t, x in zip(is_redirect, target_internal, transport_err)])), z3.Not(is_ok(res))))
        E.cover("ten redirects followed", n_calls == bv(11))
        E.cover("chain stopped by an internal target at the third hop", z3.And(n_calls == bv(3), z3.Not(is_ok(res)), allow.e))
        E.cover("successful two-hop chain", z3.And(n_calls == bv(3), is_ok(res)))

    def q_redirect_loop_async(E):
        """the async twin of the hop loop (executed as straight-line code; replayed through the sync entry point only)"""
        return q_redirect_loop(E, "<RedirectResolver as AsyncHttpResolver>::http_resolve_async")

    return [q_localhost_names, q_missing_host, q_ipv4_literal, q_obfuscated_numeric, q_hex_labels, q_headers, q_redirect_loop, q_redirect_loop_async]


def replay_redirects(E):
    """native replay: scripted transport behind the real RedirectResolver"""
    mi = E.model_inputs
    hops = []
    for i in range(12):
        hops.append({"redirect": bool(mi.get("hop%d_is_redirect" % i, False)), "internal": bool(mi.get("hop%d_target_internal" % i, False)),
                     "error": bool(mi.get("hop%d_transport_error" % i, False)), "relative": bool(mi.get("hop%d_location_relative" % i, False))})
    r = E.native("redirect_chain", [bool(mi["allow_redirects"]), hops])
    n = r["calls"]
    E.prove("at most eleven transport calls (the request plus ten redirects)", z3.BoolVal(n <= 11))
    E.prove("with redirects disabled the transport is called exactly once", z3.BoolVal(mi["allow_redirects"] or n == 1))
    E.prove("with redirects disabled a redirect response is an error",
            z3.BoolVal(mi["allow_redirects"] or not hops[0]["redirect"] or hops[0]["error"] or not r["ok"]))
    for i in range(1, 13):
        E.prove("hop %d is re-issued only to a target that passed the internal-address check" % i, z3.BoolVal(not r["reached_internal"]))
        E.prove("hop %d is re-issued only after a target check" % i, z3.BoolVal(not r["reached_internal"]))
    endless = mi["allow_redirects"] and all(h["redirect"] and not h["internal"] and not h["error"] for h in hops)
    E.prove("an endless redirect chain ends in an error", z3.BoolVal((not endless) or not r["ok"]))


# ---- models of the http request builder used by build_redirected_request -----------------------
def _req_builder(I, args, pc):
    return VStruct("Builder", {"headers": VVec([])})


def _builder_passthrough(I, args, pc):
    return args[0]


def _builder_header(I, args, pc):
    from symex import vec_push
    b = args[0]
    return VStruct("Builder", {"headers": vec_push(b.fields["headers"], VTuple([args[1], args[2]]))})


def _builder_body(I, args, pc):
    return ok(VStruct("Request", {"headers": args[0].fields["headers"]}))


def _headers_iter(I, args, pc):
    from symex import VIter
    return VIter(args[0].fields["items"])


def _headers_into_iter(I, args, pc):
    """HeaderMap::into_iter: (Some(name), value) for the first value of a header, (None, value) for further values of
    the same header (values of one header are adjacent: the query assumes equal names are adjacent in the list)"""
    from symex import VIter
    items = args[0].fields["items"]
    out = []
    for i, it in enumerate(items.items):
        name, val = it.items
        if i == 0:
            out.append(VTuple([some(name), val]))
        else:
            same = bstr.eq(name.e, items.items[i - 1].items[0].e)
            out.append(VTuple([opt(z3.Not(same), name), val]))
    return VIter(VVec(out, items.n))


OVERRIDES.update({
    "HeaderMap::into_iter": _headers_into_iter,
    "Request::builder": _req_builder,
    "Builder::method": _builder_passthrough,
    "Builder::uri": _builder_passthrough,
    "Builder::header": _builder_header,
    "Builder::body": _builder_body,
    "HeaderMap::iter": _headers_iter,
})


# ---- native mapping -------------------------------------------------------------------------------
def _hing_args(a):
    u = a[0]
    h = u["host"]["payload"][0] if u["host"]["variant"] == "Some" else ""
    return ["http://%s/x" % h]


NATIVE_MAP = {"host_is_non_global": ("host_is_non_global_bool", _hing_args)}


def _c_hing(I, args):
    return I.call("host_is_non_global", [VStruct("Uri", {"host": some(args[0])})])


COMPOSITES = {"@host_is_non_global": (_c_hing, "host_is_non_global_bool", lambda a: ["http://%s/x" % a[0]])}

_HOSTS = ["localhost", "LOCALHOST", "localhost.", "api.localhost", "api.localhost.", "Foo.LocalHost.", "localhostx", "notlocalhost",
          "127.0.0.1", "127.0.0.1.", "10.1.2.3", "100.64.0.1", "100.127.255.255", "100.128.0.1", "169.254.169.254", "172.16.0.1", "172.32.0.1",
          "192.168.1.1", "192.0.2.1", "198.51.100.7", "203.0.113.9", "224.0.0.1", "255.255.255.255", "0.0.0.0", "8.8.8.8", "1.1.1.1", "8.8.8.8.",
          "2130706433", "127.1", "0177.0.0.1", "0x7f.0.0.1", "127.0x1", "0X7F.1", "1.2.3", "1.2.3.4.5", "256.1.1.1", "01.2.3.4", "example.com",
          "example.com.", "a-b.example.org", "1e100.net", "x0x1.com", "0xabc.example", "3com.com", "999", "1..2", ".", "a..b"]
VECTORS = [("@host_is_non_global", [h]) for h in _HOSTS] + \
          [("normalize_host", [h]) for h in ["[::1]", "[::1", "Example.COM.", "a.", "[Ab]."]] + \
          [("looks_like_obfuscated_ip", [h]) for h in ["", "1.2", "0x1", "a.0X2", "abc", "1a", "1.2.3.4"]]


def _ip_exact(I, args, pc):
    """differential validation only: the real classifier on IPv4 (== the table, as decided by the Kani harness)"""
    ip = args[0]
    return VBool(table_v4([ip.fields["o0"].e, ip.fields["o1"].e, ip.fields["o2"].e, ip.fields["o3"].e]))


DIFF_OVERRIDES = dict(OVERRIDES)
DIFF_OVERRIDES["ip_is_non_global"] = _ip_exact

"""C34 -- JUMBF URIs and manifest labels parse back to their parts.
Sources executed symbolically: sdk/src/jumbf/labels.rs (all URI/label helpers, ManifestParts Display)."""
import z3

import bstr
from bstr import b8, bv, uge, ule, ult, ugt
from symex import VStr, VInt, VBool, VStruct, none, some, veq, opt, is_some

FILES = ["/repo/sdk/src/jumbf/labels.rs"]


def no_char(v, chars):
    return bstr.all_bytes(v.e, lambda c: z3.And([c != b8(ord(ch)) for ch in chars]))


def max_occurrences(v, ch, k):
    """at most k bytes of v equal ch"""
    cnt = bv(0)
    for i in range(v.e.cap):
        cnt = cnt + z3.If(z3.And(ult(bv(i), v.e.n), v.e.b[i] == b8(ord(ch))), bv(1), bv(0))
    return ule(cnt, bv(k))


def lit(s):
    return VStr(bstr.lit(s))


def caps(tier):
    return dict(m=10, a=10, g=5, v=4, intmax=99) if tier == "quick" else dict(m=16, a=14, g=8, v=5, intmax=999)


def make_queries(tier):
    C = caps(tier)

    def label(E, name, cap):
        """a label segment the SDK can generate: printable ASCII, non-empty, no '/' and no '='"""
        v = E.str(name, cap, "graph", min_len=1)
        E.assume(no_char(v, "/="))
        return v

    def q_assertion_uri_roundtrip(E):
        """to_assertion_uri(m, a) yields back m and a"""
        m, a = label(E, "m", C["m"]), label(E, "a", C["a"])
        uri = E.call("to_assertion_uri", m, a)
        E.prove("manifest label recovered from assertion URI", veq(E.call("manifest_label_from_uri", uri), some(m)))
        E.prove("assertion label recovered from assertion URI", veq(E.call("assertion_label_from_uri", uri), some(a)))
        E.prove("box name of an assertion URI is the assertion label", veq(E.call("box_name_from_uri", uri), some(a)))
        E.cover("a label containing '.' and '_'", z3.And(bstr.contains(a.e, bstr.lit(".")), bstr.contains(a.e, bstr.lit("__"))))

    def q_manifest_and_signature_uri(E):
        """to_manifest_uri / to_signature_uri yield back the manifest label"""
        m = label(E, "m", C["m"])
        E.prove("manifest label recovered from manifest URI", veq(E.call("manifest_label_from_uri", E.call("to_manifest_uri", m)), some(m)))
        su = E.call("to_signature_uri", m)
        E.prove("manifest label recovered from signature URI", veq(E.call("manifest_label_from_uri", su), some(m)))
        E.prove("box name of the signature URI is c2pa.signature", veq(E.call("box_name_from_uri", su), some(lit("c2pa.signature"))))
        E.cover("urn-style label", bstr.prefixof(bstr.lit("urn:"), m.e))

    def q_databox_and_credential_uri(E):
        """to_databox_uri / to_verifiable_credential_uri yield back manifest label and box label"""
        m, d = label(E, "m", C["m"]), label(E, "d", C["a"])
        du = E.call("to_databox_uri", m, d)
        E.prove("manifest label recovered from databox URI", veq(E.call("manifest_label_from_uri", du), some(m)))
        E.prove("databox label recovered from databox URI", veq(E.call("assertion_label_from_uri", du), some(d)))
        vu = E.call("to_verifiable_credential_uri", m, d)
        E.prove("manifest label recovered from credential URI", veq(E.call("manifest_label_from_uri", vu), some(m)))
        E.prove("credential id is the box name of the credential URI", veq(E.call("box_name_from_uri", vu), some(d)))
        E.cover("non-trivial ids", z3.And(ugt(m.e.n, bv(3)), ugt(d.e.n, bv(3))))

    def q_relative_absolute(E):
        """to_relative_uri / to_absolute_uri are inverse on assertion URIs"""
        m, a = label(E, "m", C["m"]), label(E, "a", C["a"])
        uri = E.call("to_assertion_uri", m, a)
        rel = E.call("to_relative_uri", uri)
        E.prove("relative form is self#jumbf=c2pa.assertions/<label>",
                veq(rel, VStr(bstr.concat(bstr.lit("self#jumbf=c2pa.assertions/"), a.e))))
        E.prove("absolute(relative(uri)) == uri", veq(E.call("to_absolute_uri", m, rel), uri))
        E.prove("absolute of an absolute URI is unchanged", veq(E.call("to_absolute_uri", m, uri), uri))
        E.prove("assertion label recovered from the relative URI", veq(E.call("assertion_label_from_uri", rel), some(a)))
        E.cover("labels of length >= 4", z3.And(ugt(m.e.n, bv(3)), ugt(a.e.n, bv(3))))

    def q_relative_absolute_other_boxes(E):
        """relative/absolute conversion is an inverse pair for databox, credential and signature URIs too"""
        m, d = label(E, "m", C["m"]), label(E, "d", C["a"])
        for kind, uri, rel_want in (
                ("databox", E.call("to_databox_uri", m, d), bstr.concat(bstr.lit("self#jumbf=c2pa.databoxes/"), d.e)),
                ("credential", E.call("to_verifiable_credential_uri", m, d), bstr.concat(bstr.lit("self#jumbf=c2pa.credentials/"), d.e))):
            rel = E.call("to_relative_uri", uri)
            E.prove("%s URI: relative form is self#jumbf=<store>/<label>" % kind, veq(rel, VStr(rel_want)))
            E.prove("%s URI: absolute(relative(uri)) == uri" % kind, veq(E.call("to_absolute_uri", m, rel), uri))
            E.prove("%s URI: absolute of the absolute URI is unchanged" % kind, veq(E.call("to_absolute_uri", m, uri), uri))
        su = E.call("to_signature_uri", m)
        srel = VStr(bstr.lit("self#jumbf=c2pa.signature"))
        E.prove("signature URI: absolute(self#jumbf=c2pa.signature) == signature URI", veq(E.call("to_absolute_uri", m, srel), su))
        E.cover("labels of length >= 3", z3.And(ugt(m.e.n, bv(2)), ugt(d.e.n, bv(2))))

    def q_absolute_uri_keeps_foreign_manifest(E):
        """to_absolute_uri leaves a URI that already names a manifest untouched, whatever the current manifest"""
        m, other = label(E, "m", C["m"]), label(E, "other", C["m"])
        mu = E.call("to_manifest_uri", other)
        su = E.call("to_signature_uri", other)
        E.prove("an absolute manifest URI is not re-prefixed", veq(E.call("to_absolute_uri", m, mu), mu))
        E.prove("an absolute signature URI is not re-prefixed", veq(E.call("to_absolute_uri", m, su), su))
        E.prove("the manifest label of the result is the foreign manifest", veq(E.call("manifest_label_from_uri", E.call("to_absolute_uri", m, mu)), some(other)))
        E.cover("two different manifests", z3.Not(bstr.eq(m.e, other.e)))

    def q_parsers_total(E):
        """URI parsers never panic on arbitrary printable input (at most 6 of each separator)"""
        u = E.str("u", C["m"] + 8, "printable")
        for ch in "/=:_.":
            E.assume(max_occurrences(u, ch, 5))
        ml = E.call("manifest_label_from_uri", u)
        E.call("assertion_label_from_uri", u)
        E.call("box_name_from_uri", u)
        E.call("to_relative_uri", u)
        E.call("to_normalized_uri", u)
        E.call("manifest_label_to_parts", u)
        E.cover("an input with a manifest label", is_some(ml))
        E.cover("an input without", z3.Not(is_some(ml)))

    def parts_inputs(E, v1):
        guid = E.str("guid", C["g"], "graph", min_len=1)
        E.assume(bstr.all_bytes(guid.e, lambda c: z3.Or(z3.And(uge(c, b8(0x30)), ule(c, b8(0x39))), z3.And(uge(c, b8(0x61)), ule(c, b8(0x66))), c == b8(0x2d))))
        vendor = E.str("vendor", C["v"], "graph", min_len=1)
        # a vendor as Claim::new produces it: lower-cased, and it must not contain the label/URI separators
        E.assume(no_char(vendor, ":/="))
        E.assume(bstr.all_bytes(vendor.e, lambda c: z3.Not(z3.And(uge(c, b8(0x41)), ule(c, b8(0x5a))))))
        cgi = E.opt("has_vendor", vendor)
        if v1:
            version, reason = none(), none()
        else:
            ver = E.int("version", C["intmax"])
            rea = E.int("reason", C["intmax"])
            version = E.opt("has_version", ver)
            hr = E.bool("has_reason")
            # a reason is only ever attached to a version
            reason = opt(z3.And(hr.e, is_some(version)), rea)
        return guid, cgi, version, reason

    def q_manifest_parts_roundtrip_v2(E):
        """ManifestParts (v2: urn:c2pa:guid[:vendor][:version[_reason]]) -> Display -> manifest_label_to_parts"""
        guid, cgi, version, reason = parts_inputs(E, False)
        mp = VStruct("ManifestParts", {"guid": guid, "is_v1": VBool(False), "cgi": cgi, "version": version, "reason": reason})
        label = E.call("display:ManifestParts", mp)
        back = E.call("manifest_label_to_parts", label)
        E.prove("v2 label parses back to the same parts", veq(back, some(mp)))
        if tier == "thorough":
            via_uri = E.call("manifest_label_to_parts", E.call("to_manifest_uri", label))
            E.prove("v2 label inside a manifest URI parses back to the same parts", veq(via_uri, some(mp)))
        E.cover("vendor, version and reason all present", z3.And(is_some(cgi), is_some(version), is_some(reason)))
        E.cover("version without vendor", z3.And(z3.Not(is_some(cgi)), is_some(version)))

    def q_manifest_parts_roundtrip_v1(E):
        """ManifestParts (v1: [vendor:]urn:uuid:guid) -> Display -> manifest_label_to_parts"""
        guid, cgi, version, reason = parts_inputs(E, True)
        mp = VStruct("ManifestParts", {"guid": guid, "is_v1": VBool(True), "cgi": cgi, "version": version, "reason": reason})
        label = E.call("display:ManifestParts", mp)
        back = E.call("manifest_label_to_parts", label)
        E.prove("v1 label parses back to the same parts", veq(back, some(mp)))
        E.cover("v1 label with vendor", is_some(cgi))
        E.cover("v1 label without vendor", z3.Not(is_some(cgi)))

    qs = [q_manifest_parts_roundtrip_v2, q_manifest_parts_roundtrip_v1, q_assertion_uri_roundtrip, q_manifest_and_signature_uri, q_databox_and_credential_uri, q_relative_absolute, q_relative_absolute_other_boxes,
          q_absolute_uri_keeps_foreign_manifest, q_parsers_total]
    return qs


def _mp_args(a):
    mp = a[0]
    def o(x):
        return x["payload"][0] if x["variant"] == "Some" else None
    return [mp["guid"], mp["is_v1"], o(mp["cgi"]), o(mp["version"]), o(mp["reason"])]


NATIVE_MAP = {"display:ManifestParts": ("manifest_parts_to_string", _mp_args)}

VECTORS = [
    ("to_manifest_uri", ["urn:c2pa:1234"]),
    ("to_assertion_uri", ["urn:c2pa:1234", "c2pa.actions.v2"]),
    ("to_signature_uri", ["m"]),
    ("to_databox_uri", ["m", "c2pa.data__1"]),
    ("to_verifiable_credential_uri", ["m", "vc1"]),
    ("to_normalized_uri", ["self#jumbf=/c2pa/m/x"]),
    ("to_normalized_uri", ["c2pa/x"]),
    ("to_normalized_uri", ["a=b=c"]),
    ("to_normalized_uri", [""]),
    ("to_absolute_uri", ["lbl", "self#jumbf=c2pa.assertions/foo"]),
    ("to_absolute_uri", ["lbl", "self#jumbf=/c2pa/x/c2pa.assertions/foo"]),
    ("to_relative_uri", ["self#jumbf=/c2pa/urn:uuid:123/c2pa.assertions/foo"]),
    ("to_relative_uri", ["self#jumbf=/c2pa/urn:uuid:123/c2pa.assertions/foo/bar"]),
    ("to_relative_uri", ["plain"]),
    ("manifest_label_from_uri", ["self#jumbf=/c2pa/urn:uuid:123/c2pa.assertions/foo"]),
    ("manifest_label_from_uri", ["/c2pa/"]),
    ("manifest_label_from_uri", ["nothing"]),
    ("assertion_label_from_uri", ["self#jumbf=/c2pa/urn:uuid:123/c2pa.assertions/foo"]),
    ("assertion_label_from_uri", ["self#jumbf=/c2pa/urn:uuid:123/c2pa.databoxes/foo"]),
    ("assertion_label_from_uri", ["c2pa.assertions"]),
    ("assertion_label_from_uri", ["c2pa.assertions/x"]),
    ("assertion_label_from_uri", ["self#jumbf=c2pa.assertions/c2pa.ingredient__2"]),
    ("box_name_from_uri", ["self#jumbf=/c2pa/x/y"]),
    ("box_name_from_uri", [""]),
    ("manifest_label_to_parts", ["acme:urn:uuid:1234"]),
    ("manifest_label_to_parts", ["urn:uuid:1234"]),
    ("manifest_label_to_parts", ["urn:c2pa:1234::7"]),
    ("manifest_label_to_parts", ["urn:c2pa:1234:acme:2_1"]),
    ("manifest_label_to_parts", ["urn:c2pa:1234:ac me:2_1"]),
    ("manifest_label_to_parts", ["urn:c2pa:1234:acme:x"]),
    ("manifest_label_to_parts", ["urn:c2pa:1234:acme:+3"]),
    ("manifest_label_to_parts", ["urn:c2pa:1:2:3:4:5"]),
    ("manifest_label_to_parts", ["self#jumbf=/c2pa/urn:c2pa:abcd:v:1/c2pa.assertions/x"]),
    ("manifest_label_to_parts", ["a:b"]),
    ("manifest_label_to_parts", ["x:urn:nope:1"]),
]

//! Native runner: executes the REAL c2pa functions (through the cfg-guarded hooks) on concrete
//! arguments.  Used by /verif/smt for (1) replaying solver counterexamples against the real build
//! and (2) differential validation of the symbolic interpreter's library models.
//! stdin: JSON array of {"f": name, "a": [args...]}; stdout: JSON array of results in the same
//! shape as symex.concrete(): Option/Result = {"variant": .., "payload": [..]}, tuples/vecs = arrays.
use std::io::Read;

use c2pa::{
    assertions::labels as alabels,
    http::restricted::{verif_hooks as rh, HostPattern},
    verif_hooks::{claim_labels as cl, labels::verif_hooks as lh, path_utils as pu},
};
use serde_json::{json, Value};

fn s(v: &Value) -> &str {
    v.as_str().expect("string argument")
}

fn opt_str(o: Option<String>) -> Value {
    match o {
        Some(x) => json!({"variant":"Some","payload":[x]}),
        None => json!({"variant":"None","payload":[]}),
    }
}

fn opt_usize(o: Option<usize>) -> Value {
    match o {
        Some(x) => json!({"variant":"Some","payload":[x]}),
        None => json!({"variant":"None","payload":[]}),
    }
}

fn arg_opt_str(v: &Value) -> Option<String> {
    if v.is_null() { None } else { Some(s(v).to_owned()) }
}

fn arg_opt_usize(v: &Value) -> Option<usize> {
    if v.is_null() { None } else { Some(v.as_u64().expect("usize") as usize) }
}

fn uri_of(v: &Value) -> Result<http::Uri, String> {
    s(v).parse::<http::Uri>().map_err(|e| e.to_string())
}

thread_local! {
    static REACHED: std::cell::Cell<bool> = const { std::cell::Cell::new(false) };
}

#[derive(Default, Debug)]
struct Recorder;

impl c2pa::http::SyncHttpResolver for Recorder {
    fn http_resolve(
        &self,
        _request: http::Request<Vec<u8>>,
    ) -> Result<http::Response<Box<dyn std::io::Read>>, c2pa::http::HttpResolverError> {
        REACHED.with(|c| c.set(true));
        Ok(http::Response::new(Box::new(std::io::empty()) as Box<dyn std::io::Read>))
    }
}

fn call(f: &str, a: &[Value]) -> Value {
    match f {
        "to_manifest_uri" => json!(lh::to_manifest_uri(s(&a[0]))),
        "to_assertion_uri" => json!(lh::to_assertion_uri(s(&a[0]), s(&a[1]))),
        "to_signature_uri" => json!(lh::to_signature_uri(s(&a[0]))),
        "to_verifiable_credential_uri" => json!(lh::to_verifiable_credential_uri(s(&a[0]), s(&a[1]))),
        "to_databox_uri" => json!(lh::to_databox_uri(s(&a[0]), s(&a[1]))),
        "to_normalized_uri" => json!(lh::to_normalized_uri(s(&a[0]))),
        "to_absolute_uri" => json!(lh::to_absolute_uri(s(&a[0]), s(&a[1]))),
        "to_relative_uri" => json!(lh::to_relative_uri(s(&a[0]))),
        "manifest_label_from_uri" => opt_str(lh::manifest_label_from_uri(s(&a[0]))),
        "assertion_label_from_uri" => opt_str(lh::assertion_label_from_uri(s(&a[0]))),
        "box_name_from_uri" => opt_str(lh::box_name_from_uri(s(&a[0]))),
        "manifest_label_to_parts" => match lh::manifest_label_to_parts(s(&a[0])) {
            Some((guid, is_v1, cgi, version, reason)) => json!({"variant":"Some","payload":[{
                "guid": guid, "is_v1": is_v1, "cgi": opt_str(cgi), "version": opt_usize(version), "reason": opt_usize(reason)}]}),
            None => json!({"variant":"None","payload":[]}),
        },
        "manifest_parts_to_string" => json!(lh::manifest_parts_to_string(
            s(&a[0]), a[1].as_bool().unwrap(), arg_opt_str(&a[2]).as_deref(), arg_opt_usize(&a[3]), arg_opt_usize(&a[4]))),
        "label_with_instance" => json!(cl::label_with_instance(s(&a[0]), a[1].as_u64().unwrap() as usize)),
        "assertion_label_from_link" => {
            let (l, i) = cl::assertion_label_from_link(s(&a[0]));
            json!([l, i])
        }
        "get_thumbnail_type" => json!(cl::get_thumbnail_type(s(&a[0]))),
        "get_thumbnail_image_type" => opt_str(cl::get_thumbnail_image_type(s(&a[0]))),
        "get_thumbnail_instance" => opt_usize(cl::get_thumbnail_instance(s(&a[0]))),
        "parse_label" => {
            let (b, v, i) = alabels::parse_label(s(&a[0]));
            json!([b, v, i])
        }
        "sanitize_archive_path" => match pu::sanitize_archive_path(s(&a[0])) {
            Ok(p) => json!({"variant":"Ok","payload":[p]}),
            Err(_) => json!({"variant":"Err","payload":[null]}),
        },
        "uri_to_path" => match c2pa::verif_hooks::io_utils::uri_to_path(s(&a[0]), arg_opt_str(&a[1]).as_deref()) {
            Ok(p) => json!({"variant":"Ok","payload":[p.to_string_lossy()]}),
            Err(_) => json!({"variant":"Err","payload":[null]}),
        },
        "normalize_host" => json!(rh::normalize_host(s(&a[0]))),
        "looks_like_obfuscated_ip" => json!(rh::looks_like_obfuscated_ip(s(&a[0]))),
        // host_is_non_global on a URI string; {"uri_error": ..} when http::Uri rejects the text
        "host_is_non_global_uri" => match uri_of(&a[0]) {
            Ok(u) => json!({"host": u.host(), "result": rh::host_is_non_global(&u)}),
            Err(e) => json!({"uri_error": e}),
        },
        "host_is_non_global_bool" => match uri_of(&a[0]) {
            Ok(u) => json!(rh::host_is_non_global(&u)),
            Err(e) => json!({"uri_error": e}),
        },
        // HostPattern::new(pattern).matches(uri)
        "host_pattern_matches" => match uri_of(&a[1]) {
            Ok(u) => json!({"host": u.host(), "port": u.port().map(|p| p.as_str().to_owned()), "scheme": u.scheme_str(),
                            "result": HostPattern::new(s(&a[0])).matches(&u)}),
            Err(e) => json!({"uri_error": e}),
        },
        // composite used by differential validation: HostPattern::new(p).matches(uri) -> bool
        "pattern_matches_bool" => match uri_of(&a[1]) {
            Ok(u) => json!(HostPattern::new(s(&a[0])).matches(&u)),
            Err(e) => json!({"uri_error": e}),
        },
        "host_pattern_new_identity" => json!({"pattern": s(&a[0])}),
        "host_pattern_matches_result" => match uri_of(&a[1]) {
            Ok(u) => json!(HostPattern::new(s(&a[0])).matches(&u)),
            Err(e) => json!({"uri_error": e}),
        },
        // RestrictedResolver over a recording transport: args = [patterns | null, uri]
        "restricted_resolver_reached" => match uri_of(&a[1]) {
            Ok(u) => {
                let inner = Recorder::default();
                let mut r = c2pa::http::restricted::RestrictedResolver::new(inner);
                if let Some(ps) = a[0].as_array() {
                    r.set_allowed_hosts(Some(ps.iter().map(|p| HostPattern::new(s(p))).collect()));
                }
                let req = http::Request::get(u).body(Vec::new()).unwrap();
                let res = c2pa::http::SyncHttpResolver::http_resolve(&r, req);
                json!({"reached": REACHED.with(|c| c.replace(false)), "err": res.is_err()})
            }
            Err(e) => json!({"uri_error": e}),
        },
        "is_uri_allowed" => match uri_of(&a[1]) {
            Ok(u) => {
                let pats: Vec<HostPattern> = a[0].as_array().unwrap().iter().map(|p| HostPattern::new(s(p))).collect();
                json!({"result": rh::is_uri_allowed(&pats, &u)})
            }
            Err(e) => json!({"uri_error": e}),
        },
        // build_redirected_request: args = [[name, value]...]; returns the forwarded header names
        "redirect_forwarded_headers" => {
            let mut hm = http::HeaderMap::new();
            for kv in a[0].as_array().unwrap() {
                let name = match http::header::HeaderName::from_bytes(s(&kv[0]).as_bytes()) {
                    Ok(n) => n,
                    Err(e) => return json!({"header_error": e.to_string()}),
                };
                let val = match http::header::HeaderValue::from_str(s(&kv[1])) {
                    Ok(v) => v,
                    Err(e) => return json!({"header_error": e.to_string()}),
                };
                hm.append(name, val);
            }
            match rh::build_redirected_request(http::Method::GET, hm, Vec::new(), "https://example.com/x".parse().unwrap()) {
                Ok(req) => json!({"names": req.headers().iter().map(|(n, _)| n.as_str().to_owned()).collect::<Vec<_>>()}),
                Err(e) => json!({"build_error": e.to_string()}),
            }
        }
        other => json!({"unknown_function": other}),
    }
}

fn main() {
    let mut inp = String::new();
    std::io::stdin().read_to_string(&mut inp).expect("stdin");
    let calls: Vec<Value> = serde_json::from_str(&inp).expect("json");
    let mut out = Vec::new();
    for c in calls {
        let f = c["f"].as_str().unwrap().to_owned();
        let a = c["a"].as_array().cloned().unwrap_or_default();
        let r = std::panic::catch_unwind(|| call(&f, &a));
        out.push(match r {
            Ok(v) => json!({"ok": v}),
            Err(_) => json!({"panic": true}),
        });
    }
    println!("{}", serde_json::to_string(&out).unwrap());
}

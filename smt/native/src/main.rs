//! Native runner: executes the REAL c2pa functions (through the cfg-guarded hooks) on concrete
//! arguments.  Used by /verif/smt for (1) replaying solver counterexamples against the real build
//! and (2) differential validation of the symbolic interpreter's library models.
//! stdin: JSON array of {"f": name, "a": [args...]}; stdout: JSON array of results in the same
//! shape as symex.concrete(): Option/Result = {"variant": .., "payload": [..]}, tuples/vecs = arrays.
use std::io::Read;

use c2pa::{
    assertions::labels as alabels,
    http::restricted::{verif_hooks as rh, HostPattern},
    verif_hooks::{claim_labels as cl, labels::verif_hooks as lh, path_utils as pu},
};
use serde_json::{json, Value};

fn s(v: &Value) -> &str {
    v.as_str().expect("string argument")
}

fn opt_str(o: Option<String>) -> Value {
    match o {
        Some(x) => json!({"variant":"Some","payload":[x]}),
        None => json!({"variant":"None","payload":[]}),
    }
}

fn opt_usize(o: Option<usize>) -> Value {
    match o {
        Some(x) => json!({"variant":"Some","payload":[x]}),
        None => json!({"variant":"None","payload":[]}),
    }
}

fn arg_opt_str(v: &Value) -> Option<String> {
    if v.is_null() { None } else { Some(s(v).to_owned()) }
}

fn arg_opt_usize(v: &Value) -> Option<usize> {
    if v.is_null() { None } else { Some(v.as_u64().expect("usize") as usize) }
}

fn uri_of(v: &Value) -> Result<http::Uri, String> {
    s(v).parse::<http::Uri>().map_err(|e| e.to_string())
}

thread_local! {
    static REACHED: std::cell::Cell<bool> = const { std::cell::Cell::new(false) };
}

#[derive(Default, Debug)]
struct Recorder;

impl c2pa::http::SyncHttpResolver for Recorder {
    fn http_resolve(
        &self,
        _request: http::Request<Vec<u8>>,
    ) -> Result<http::Response<Box<dyn std::io::Read>>, c2pa::http::HttpResolverError> {
        REACHED.with(|c| c.set(true));
        Ok(http::Response::new(Box::new(std::io::empty()) as Box<dyn std::io::Read>))
    }
}

/// abstract hash term -> real bytes: {"leaf": id} = sha256 of the id text, {"node": [l, r]} = concat_and_hash(l, r)
fn term_bytes(t: &Value) -> Vec<u8> {
    use c2pa::verif_hooks::merkle as mk;
    if let Some(id) = t.get("leaf") {
        return mk::hash_by_alg("sha256", id.to_string().as_bytes(), None);
    }
    let n = t["node"].as_array().expect("node");
    mk::concat_and_hash("sha256", &term_bytes(&n[0]), Some(&term_bytes(&n[1])))
}

/// Real Merkle code on a concrete scenario: n leaves (leaf i = term {"leaf": i}), max_proofs, location,
/// candidate leaf term, optional explicit proof (list of terms; null = use the generated proof).
fn merkle_scenario(a: &[Value]) -> Value {
    use c2pa::{assertions::{MerkleMap, VecByteBuf}, verif_hooks::merkle as mk};
    let n = a[0].as_u64().unwrap() as usize;
    let max_proofs = a[1].as_u64().unwrap() as usize;
    let loc = a[2].as_u64().unwrap() as usize;
    let leaf_terms = a.get(6).and_then(|v| v.as_array().cloned());
    let leaves: Vec<mk::MerkleNode> = (0..n)
        .map(|i| match &leaf_terms {
            Some(ts) if i < ts.len() => mk::MerkleNode(term_bytes(&ts[i])),
            _ => mk::MerkleNode(term_bytes(&json!({"leaf": i}))),
        })
        .collect();
    let tree = mk::C2PAMerkleTree::from_leaves(leaves, "sha256", false);
    let row = std::cmp::min(max_proofs, tree.layers.len() - 1);
    let hashes = VecByteBuf(tree.layers[row].iter().map(|m| serde_bytes::ByteBuf::from(m.0.clone())).collect());
    let mm = MerkleMap { unique_id: 0, local_id: 0, count: n, alg: Some("sha256".into()), init_hash: None, hashes,
                         fixed_block_size: None, variable_block_sizes: None };
    let gen = tree.get_proof_by_index(loc, max_proofs);
    let gen_ok = gen.is_ok();
    let gen_proof: Vec<Vec<u8>> = gen.unwrap_or_default();
    let to_opt = |p: &Vec<Vec<u8>>| if p.is_empty() { None } else { Some(VecByteBuf(p.iter().map(|h| serde_bytes::ByteBuf::from(h.clone())).collect())) };
    let own = if loc < n { mm.check_merkle_tree("sha256", &tree.leaves[loc].0, loc, &to_opt(&gen_proof)) } else { false };
    let cand = term_bytes(&a[3]);
    let proof: Vec<Vec<u8>> = match a[4].as_array() {
        Some(ts) => ts.iter().map(term_bytes).collect(),
        None => gen_proof.clone(),
    };
    let explicit_none = a.get(5).and_then(|v| v.as_bool()).unwrap_or(false);
    let p = if explicit_none { None } else { Some(VecByteBuf(proof.iter().map(|h| serde_bytes::ByteBuf::from(h.clone())).collect())) };
    let cand_ok = mm.check_merkle_tree("sha256", &cand, loc, &p);
    json!({"generated_ok": gen_ok, "generated_proof_len": gen_proof.len(), "own_leaf_verifies": own, "candidate_verifies": cand_ok,
           "candidate_is_leaf": loc < n && cand == tree.leaves[loc].0})
}

fn hex_bytes(h: &str) -> Vec<u8> {
    (0..h.len() / 2).map(|i| u8::from_str_radix(&h[2 * i..2 * i + 2], 16).unwrap()).collect()
}

/// SHA-256 of the empty string (hash_by_alg refuses empty input)
fn sha256_empty() -> [u8; 32] {
    [0xe3, 0xb0, 0xc4, 0x42, 0x98, 0xfc, 0x1c, 0x14, 0x9a, 0xfb, 0xf4, 0xc8, 0x99, 0x6f, 0xb9, 0x24,
     0x27, 0xae, 0x41, 0xe4, 0x64, 0x9b, 0x93, 0x4c, 0xa4, 0x95, 0x99, 0x1b, 0x78, 0x52, 0xb8, 0x55]
}

struct Scripted {
    hops: Vec<(bool, bool, bool, bool)>,
    calls: std::sync::atomic::AtomicUsize,
    reached_internal: std::sync::atomic::AtomicBool,
}

struct ScriptedRef(std::sync::Arc<Scripted>);

impl c2pa::http::SyncHttpResolver for ScriptedRef {
    fn http_resolve(
        &self,
        request: http::Request<Vec<u8>>,
    ) -> Result<http::Response<Box<dyn std::io::Read>>, c2pa::http::HttpResolverError> {
        use std::sync::atomic::Ordering::SeqCst;
        let k = self.0.calls.fetch_add(1, SeqCst);
        if request.uri().host() == Some("127.0.0.1") {
            self.0.reached_internal.store(true, SeqCst);
        }
        let (redirect, internal, error, relative) = self.0.hops.get(k).copied().unwrap_or((false, false, false, false));
        if error {
            return Err(c2pa::http::HttpResolverError::Other("scripted transport failure".into()));
        }
        let body: Box<dyn std::io::Read> = Box::new(std::io::empty());
        if redirect {
            let loc = if internal { "http://127.0.0.1/internal".to_string() } else if relative { format!("/hop{}", k + 1) } else { format!("http://example.com/hop{}", k + 1) };
            Ok(http::Response::builder().status(302).header("location", loc).body(body).unwrap())
        } else {
            Ok(http::Response::builder().status(200).body(body).unwrap())
        }
    }
}

#[async_trait::async_trait]
impl c2pa::http::AsyncHttpResolver for ScriptedRef {
    async fn http_resolve_async(
        &self,
        request: http::Request<Vec<u8>>,
    ) -> Result<http::Response<Box<dyn std::io::Read>>, c2pa::http::HttpResolverError> {
        c2pa::http::SyncHttpResolver::http_resolve(self, request)
    }
}

#[async_trait::async_trait]
impl c2pa::http::AsyncHttpResolver for Recorder {
    async fn http_resolve_async(
        &self,
        request: http::Request<Vec<u8>>,
    ) -> Result<http::Response<Box<dyn std::io::Read>>, c2pa::http::HttpResolverError> {
        c2pa::http::SyncHttpResolver::http_resolve(self, request)
    }
}

/// in-memory stream whose reads follow a schedule: the i-th read returns at most `shorts[i]` bytes or fails
struct FaultyCursor {
    data: Vec<u8>,
    pos: u64,
    k: usize,
    shorts: Vec<u64>,
    errs: Vec<bool>,
}

impl std::io::Read for FaultyCursor {
    fn read(&mut self, buf: &mut [u8]) -> std::io::Result<usize> {
        let k = self.k;
        self.k += 1;
        if self.errs.get(k).copied().unwrap_or(false) {
            return Err(std::io::Error::new(std::io::ErrorKind::Other, "scheduled read failure"));
        }
        let short = self.shorts.get(k).copied().unwrap_or(u64::MAX).max(1);
        let rem = (self.data.len() as u64).saturating_sub(self.pos);
        let c = (buf.len() as u64).min(rem).min(short) as usize;
        let p = self.pos as usize;
        buf[..c].copy_from_slice(&self.data[p..p + c]);
        self.pos += c as u64;
        Ok(c)
    }
}

impl std::io::Seek for FaultyCursor {
    fn seek(&mut self, from: std::io::SeekFrom) -> std::io::Result<u64> {
        let np: i128 = match from {
            std::io::SeekFrom::Start(p) => p as i128,
            std::io::SeekFrom::End(o) => self.data.len() as i128 + o as i128,
            std::io::SeekFrom::Current(o) => self.pos as i128 + o as i128,
        };
        if np < 0 || np > u64::MAX as i128 {
            return Err(std::io::Error::new(std::io::ErrorKind::InvalidInput, "seek out of range"));
        }
        self.pos = np as u64;
        Ok(self.pos)
    }
}

/// minimal executor: the scripted transports never yield, so one poll completes the future
fn block_on<F: std::future::Future>(fut: F) -> F::Output {
    use std::task::{Context, Poll, RawWaker, RawWakerVTable, Waker};
    fn noop(_: *const ()) {}
    fn clone(_: *const ()) -> RawWaker {
        RawWaker::new(std::ptr::null(), &VTABLE)
    }
    static VTABLE: RawWakerVTable = RawWakerVTable::new(clone, noop, noop, noop);
    let waker = unsafe { Waker::from_raw(RawWaker::new(std::ptr::null(), &VTABLE)) };
    let mut cx = Context::from_waker(&waker);
    let mut fut = Box::pin(fut);
    loop {
        if let Poll::Ready(v) = fut.as_mut().poll(&mut cx) {
            return v;
        }
    }
}

fn call(f: &str, a: &[Value]) -> Value {
    match f {
        "to_manifest_uri" => json!(lh::to_manifest_uri(s(&a[0]))),
        "to_assertion_uri" => json!(lh::to_assertion_uri(s(&a[0]), s(&a[1]))),
        "to_signature_uri" => json!(lh::to_signature_uri(s(&a[0]))),
        "to_verifiable_credential_uri" => json!(lh::to_verifiable_credential_uri(s(&a[0]), s(&a[1]))),
        "to_databox_uri" => json!(lh::to_databox_uri(s(&a[0]), s(&a[1]))),
        "to_normalized_uri" => json!(lh::to_normalized_uri(s(&a[0]))),
        "to_absolute_uri" => json!(lh::to_absolute_uri(s(&a[0]), s(&a[1]))),
        "to_relative_uri" => json!(lh::to_relative_uri(s(&a[0]))),
        "manifest_label_from_uri" => opt_str(lh::manifest_label_from_uri(s(&a[0]))),
        "assertion_label_from_uri" => opt_str(lh::assertion_label_from_uri(s(&a[0]))),
        "box_name_from_uri" => opt_str(lh::box_name_from_uri(s(&a[0]))),
        "manifest_label_to_parts" => match lh::manifest_label_to_parts(s(&a[0])) {
            Some((guid, is_v1, cgi, version, reason)) => json!({"variant":"Some","payload":[{
                "guid": guid, "is_v1": is_v1, "cgi": opt_str(cgi), "version": opt_usize(version), "reason": opt_usize(reason)}]}),
            None => json!({"variant":"None","payload":[]}),
        },
        "manifest_parts_to_string" => json!(lh::manifest_parts_to_string(
            s(&a[0]), a[1].as_bool().unwrap(), arg_opt_str(&a[2]).as_deref(), arg_opt_usize(&a[3]), arg_opt_usize(&a[4]))),
        "label_with_instance" => json!(cl::label_with_instance(s(&a[0]), a[1].as_u64().unwrap() as usize)),
        "assertion_label_from_link" => {
            let (l, i) = cl::assertion_label_from_link(s(&a[0]));
            json!([l, i])
        }
        "get_thumbnail_type" => json!(cl::get_thumbnail_type(s(&a[0]))),
        "get_thumbnail_image_type" => opt_str(cl::get_thumbnail_image_type(s(&a[0]))),
        "get_thumbnail_instance" => opt_usize(cl::get_thumbnail_instance(s(&a[0]))),
        "parse_label" => {
            let (b, v, i) = alabels::parse_label(s(&a[0]));
            json!([b, v, i])
        }
        "sanitize_archive_path" => match pu::sanitize_archive_path(s(&a[0])) {
            Ok(p) => json!({"variant":"Ok","payload":[p]}),
            Err(_) => json!({"variant":"Err","payload":[null]}),
        },
        "uri_to_path" => match c2pa::verif_hooks::io_utils::uri_to_path(s(&a[0]), arg_opt_str(&a[1]).as_deref()) {
            Ok(p) => json!({"variant":"Ok","payload":[p.to_string_lossy()]}),
            Err(_) => json!({"variant":"Err","payload":[null]}),
        },
        // C14: args = [sig_len, other|null, end_size|null] -> Ok(len) | Err(text)
        "pad_cose_sig" => {
            let other = a[1].as_u64().map(|n| n as usize);
            let end = a[2].as_u64().map(|n| n as usize);
            match c2pa::crypto::cose::sign_verif_hooks::pad_cose_sig_len(a[0].as_u64().unwrap() as usize, other, end) {
                Ok(n) => json!({"ok": true, "len": n}),
                Err(_) => json!({"ok": false, "len": 0}),
            }
        }
        // C14: args = [hash_len, start_pad, desired_extra] : DataHash::pad_to_size(base + extra)
        "data_hash_pad" => {
            use c2pa::assertions::DataHash;
            use c2pa::verif_hooks::assertion::data_len;
            let mut d = DataHash::new("jumbf manifest", "sha256");
            d.set_hash(vec![7u8; a[0].as_u64().unwrap() as usize]);
            d.add_padding(vec![0u8; a[1].as_u64().unwrap() as usize]);
            let base = data_len(&d).unwrap();
            let desired = (base as i64 + a[2].as_i64().unwrap()) as usize;
            let r = d.pad_to_size(desired);
            let fin = data_len(&d).unwrap();
            json!({"base": base, "desired": desired, "ok": r.is_ok(), "final": fin, "pad": d.pad.len(), "has_pad2": d.pad2.is_some(), "pad2": d.pad2.as_ref().map(|p| p.len()).unwrap_or(0)})
        }
        // C35: ReaderUtils::read_to_vec over a stream with scheduled short reads / failures
        // args = [data (latin-1), pos, n, shorts[], errs[]]
        "read_to_vec_faulty_okbytes" => {
            let mut r = call("read_to_vec_faulty", a);
            r.as_object_mut().unwrap().remove("reads");
            r
        }
        "read_to_vec_faulty" => {
            use c2pa::verif_hooks::io_utils::ReaderUtils;
            let data: Vec<u8> = s(&a[0]).chars().map(|c| c as u32 as u8).collect();
            let mut fc = FaultyCursor {
                data,
                pos: a[1].as_u64().unwrap(),
                k: 0,
                shorts: a[3].as_array().unwrap().iter().map(|v| v.as_u64().unwrap()).collect(),
                errs: a[4].as_array().unwrap().iter().map(|v| v.as_bool().unwrap()).collect(),
            };
            match fc.read_to_vec(a[2].as_u64().unwrap()) {
                Ok(v) => json!({"ok": true, "bytes": v.iter().map(|b| *b as char).collect::<String>(), "reads": fc.k}),
                Err(_) => json!({"ok": false, "bytes": "", "reads": fc.k}),
            }
        }
        // C15: placeholder workflow through the public API; the manifest grows by an assertion of `a[0]` bytes after the
        // placeholder was handed out.  -> lengths of the composed placeholder and of the signed result
        // C15 replay battery: the placeholder workflow through the public API for a family of scenarios; returns every scenario in which
        // sign_embeddable returned Ok with a length different from the placeholder that was handed out last.
        // args = [format]
        "embeddable_scenarios" => {
            let format = s(&a[0]).to_string();
            let settings: String = std::fs::read_to_string("/repo/sdk/tests/fixtures/test_settings.toml").expect("fixture settings")
                .lines().filter(|l| !l.trim_start().starts_with("tsa_url")).collect::<Vec<_>>().join("\n");
            let jpeg = std::fs::read("/repo/sdk/tests/fixtures/cloud.jpg").expect("fixture jpeg");
            let mut bad: Vec<Value> = Vec::new();
            let mut ran = 0usize;
            let mut run = |n_extra: usize, start: u64, len: u64, grow: usize, twice: bool| {
                let ctx = match c2pa::Context::new().with_settings(c2pa::Settings::new().with_toml(&settings).expect("settings")) { Ok(c) => c, Err(_) => return };
                let def = r#"{"title": "verif", "format": "image/jpeg", "claim_generator_info": [{"name": "verif-native", "version": "0.1"}]}"#;
                let mut b = match c2pa::Builder::from_context(ctx).with_definition(def) { Ok(b) => b, Err(_) => return };
                b.set_intent(c2pa::BuilderIntent::Create(c2pa::DigitalSourceType::DigitalCapture));
                let mut ph = match b.placeholder(&format) { Ok(p) => p, Err(_) => return };
                if ph.is_empty() { return; }
                let mut ex = vec![c2pa::HashRange::new(2, ph.len() as u64)];
                for i in 0..n_extra { ex.push(c2pa::HashRange::new(start + 1000 * i as u64, len)); }
                if twice {
                    if b.set_data_hash_exclusions(vec![c2pa::HashRange::new(2, 10)]).is_err() { return; }
                    ph = match b.placeholder(&format) { Ok(p) => p, Err(_) => return };
                    ex[0] = c2pa::HashRange::new(2, ph.len() as u64);
                }
                if grow > 0 && b.add_assertion("org.contentauth.test", &json!({"blob": "x".repeat(grow)})).is_err() { return; }
                if b.set_data_hash_exclusions(ex).is_err() { return; }
                if b.update_hash_from_stream(&format, &mut std::io::Cursor::new(jpeg.clone())).is_err() { return; }
                ran += 1;
                if let Ok(v) = b.sign_embeddable(&format) {
                    if v.len() != ph.len() {
                        bad.push(json!({"n_extra": n_extra, "start": start, "len": len, "grow": grow, "twice": twice, "placeholder_len": ph.len(), "signed_len": v.len()}));
                    }
                }
            };
            for twice in [false, true] {
                for grow in [0usize, 40, 5000] {
                    run(0, 0, 0, grow, twice);
                }
            }
            for n_extra in 1..=9usize {
                for (start, len) in [(100u64, 2u64), (100, 30), (14000, 30), (14000, 300), (70000, 30), (70000, 300), (70000, 70000)] {
                    run(n_extra, start, len, 0, false);
                }
            }
            json!({"ran": ran, "mismatches": bad})
        }
        "sign_embeddable_growth_summary" => {
            let r = call("sign_embeddable_growth", a);
            if r.get("setup_error").is_some() { return r; }
            json!({"ok": r["ok"], "same_len": r["ok"].as_bool().unwrap() && r["signed_len"] == r["placeholder_len"]})
        }
        "sign_embeddable_growth" => {
            // the fixture settings minus the time-stamp authority (no network here; the test configuration of the SDK mocks it)
            let settings: String = std::fs::read_to_string("/repo/sdk/tests/fixtures/test_settings.toml").expect("fixture settings")
                .lines().filter(|l| !l.trim_start().starts_with("tsa_url")).collect::<Vec<_>>().join("\n");
            let ctx = c2pa::Context::new().with_settings(c2pa::Settings::new().with_toml(&settings).expect("settings")).expect("context");
            let def = r#"{"title": "verif", "format": "image/jpeg", "claim_generator_info": [{"name": "verif-native", "version": "0.1"}]}"#.to_string();
            let mut b = c2pa::Builder::from_context(ctx).with_definition(def.as_str()).expect("definition");
            b.set_intent(c2pa::BuilderIntent::Create(c2pa::DigitalSourceType::DigitalCapture));
            let ph = match b.placeholder("image/jpeg") {
                Ok(p) => p,
                Err(e) => return json!({"setup_error": e.to_string()}),
            };
            let grow = a[0].as_u64().unwrap() as usize;
            if grow > 0 {
                if let Err(e) = b.add_assertion("org.contentauth.test", &json!({"blob": "x".repeat(grow)})) {
                    return json!({"setup_error": e.to_string()});
                }
            }
            let jpeg = std::fs::read("/repo/sdk/tests/fixtures/cloud.jpg").expect("fixture jpeg");
            if let Err(e) = b.set_data_hash_exclusions(vec![c2pa::HashRange::new(2, ph.len() as u64)]) {
                return json!({"setup_error": e.to_string()});
            }
            if let Err(e) = b.update_hash_from_stream("image/jpeg", &mut std::io::Cursor::new(jpeg)) {
                return json!({"setup_error": e.to_string()});
            }
            match b.sign_embeddable("image/jpeg") {
                Ok(v) => json!({"ok": true, "placeholder_len": ph.len(), "signed_len": v.len()}),
                Err(e) => json!({"ok": false, "placeholder_len": ph.len(), "signed_len": 0, "err": e.to_string()}),
            }
        }
        "vec_compare" => json!(c2pa::verif_hooks::merkle::vec_compare(s(&a[0]).as_bytes(), s(&a[1]).as_bytes())),
        // C01: DataHash generated over d0 (real SHA-256), verified against d1; args = [d0, d1, [[start, len], ...]]
        "data_hash_tamper" => {
            use c2pa::assertions::DataHash;
            let d0: Vec<u8> = s(&a[0]).chars().map(|c| c as u32 as u8).collect();
            let d1: Vec<u8> = s(&a[1]).chars().map(|c| c as u32 as u8).collect();
            let mut dh = DataHash::new("jumbf manifest", "sha256");
            for r in a[2].as_array().unwrap() {
                dh.add_exclusion(c2pa::HashRange::new(r[0].as_u64().unwrap(), r[1].as_u64().unwrap()));
            }
            let g = dh.gen_hash_from_stream(&mut std::io::Cursor::new(d0));
            let v = dh.verify_stream_hash(&mut std::io::Cursor::new(d1), None);
            json!({"gen_ok": g.is_ok(), "verify_ok": v.is_ok()})
        }
        "merkle_scenario" => merkle_scenario(a),
        // sync vs async twins of the two resolver wrappers on the same script
        "redirect_chain_both" => {
            let allow = a[0].as_bool().unwrap();
            let hops: Vec<(bool, bool, bool, bool)> = a[1].as_array().unwrap().iter()
                .map(|h| (h["redirect"].as_bool().unwrap(), h["internal"].as_bool().unwrap(), h["error"].as_bool().unwrap(), h["relative"].as_bool().unwrap_or(false))).collect();
            let mk = || std::sync::Arc::new(Scripted { hops: hops.clone(), calls: std::sync::atomic::AtomicUsize::new(0), reached_internal: std::sync::atomic::AtomicBool::new(false) });
            let (ts, ta) = (mk(), mk());
            let req = || http::Request::get("http://example.com/start").body(Vec::new()).unwrap();
            let rs = rh::redirect_resolve(ScriptedRef(ts.clone()), allow, req());
            let ra = block_on(rh::redirect_resolve_async(ScriptedRef(ta.clone()), allow, req()));
            let es = rs.as_ref().err().map(|e| e.to_string());
            let ea = ra.as_ref().err().map(|e| e.to_string());
            json!({"sync_ok": rs.is_ok(), "async_ok": ra.is_ok(), "sync_calls": ts.calls.load(std::sync::atomic::Ordering::SeqCst),
                   "async_calls": ta.calls.load(std::sync::atomic::Ordering::SeqCst), "same_error": es == ea})
        }
        "restricted_both" => match uri_of(&a[1]) {
            Ok(u) => {
                let mk = || {
                    let mut r = c2pa::http::restricted::RestrictedResolver::new(Recorder::default());
                    if let Some(ps) = a[0].as_array() {
                        r.set_allowed_hosts(Some(ps.iter().map(|p| HostPattern::new(s(p))).collect()));
                    }
                    r
                };
                let req = || http::Request::get(u.clone()).body(Vec::new()).unwrap();
                let rs = c2pa::http::SyncHttpResolver::http_resolve(&mk(), req());
                let reached_s = REACHED.with(|c| c.replace(false));
                let ra = block_on(c2pa::http::AsyncHttpResolver::http_resolve_async(&mk(), req()));
                let reached_a = REACHED.with(|c| c.replace(false));
                json!({"sync_ok": rs.is_ok(), "async_ok": ra.is_ok(), "sync_reached": reached_s, "async_reached": reached_a})
            }
            Err(e) => json!({"uri_error": e}),
        },
        // PngIO::get_box_map on raw bytes: args = [file bytes (latin-1)]
        // PNG handler on raw bytes (latin-1 strings): write / remove / read
        "png_write" => {
            use c2pa::verif_hooks::{png_io::PngIO, AssetIO};
            let data: Vec<u8> = s(&a[0]).chars().map(|c| c as u32 as u8).collect();
            let store: Vec<u8> = s(&a[1]).chars().map(|c| c as u32 as u8).collect();
            let h = PngIO::new("png");
            let mut inp = std::io::Cursor::new(data);
            let mut out = std::io::Cursor::new(Vec::new());
            let r = h.get_writer("png").unwrap().write_cai(&mut inp, &mut out, &store);
            json!({"ok": r.is_ok(), "out": out.into_inner().iter().map(|b| *b as char).collect::<String>()})
        }
        // write then read back (the CRC of the new chunk is not modelled, so validation compares the read-back store and the length)
        "png_write_read" => {
            use c2pa::verif_hooks::{png_io::PngIO, AssetIO};
            let data: Vec<u8> = s(&a[0]).chars().map(|c| c as u32 as u8).collect();
            let store: Vec<u8> = s(&a[1]).chars().map(|c| c as u32 as u8).collect();
            let h = PngIO::new("png");
            let mut inp = std::io::Cursor::new(data);
            let mut out = std::io::Cursor::new(Vec::new());
            match h.get_writer("png").unwrap().write_cai(&mut inp, &mut out, &store) {
                Err(_) => json!({"ok": false, "out": ""}),
                Ok(()) => {
                    let bytes = out.into_inner();
                    let n = bytes.len();
                    let mut c = std::io::Cursor::new(bytes);
                    match h.get_reader().read_cai(&mut c) {
                        Ok(v) => json!({"ok": true, "read_ok": true, "store": v.iter().map(|b| *b as char).collect::<String>(), "len": n}),
                        Err(_) => json!({"ok": true, "read_ok": false, "store": "", "len": n}),
                    }
                }
            }
        }
        "png_remove" => {
            use c2pa::verif_hooks::{png_io::PngIO, AssetIO};
            let data: Vec<u8> = s(&a[0]).chars().map(|c| c as u32 as u8).collect();
            let h = PngIO::new("png");
            let mut inp = std::io::Cursor::new(data);
            let mut out = std::io::Cursor::new(Vec::new());
            let r = h.get_writer("png").unwrap().remove_cai_store_from_stream(&mut inp, &mut out);
            json!({"ok": r.is_ok(), "out": out.into_inner().iter().map(|b| *b as char).collect::<String>()})
        }
        "png_read" => {
            use c2pa::verif_hooks::{png_io::PngIO, AssetIO};
            let data: Vec<u8> = s(&a[0]).chars().map(|c| c as u32 as u8).collect();
            let h = PngIO::new("png");
            let mut inp = std::io::Cursor::new(data);
            match h.get_reader().read_cai(&mut inp) {
                Ok(v) => json!({"ok": true, "store": v.iter().map(|b| *b as char).collect::<String>()}),
                Err(_) => json!({"ok": false, "store": ""}),
            }
        }
        "png_locations" => {
            use c2pa::verif_hooks::{png_io::PngIO, AssetIO, HashBlockObjectType};
            let data: Vec<u8> = s(&a[0]).chars().map(|c| c as u32 as u8).collect();
            let h = PngIO::new("png");
            let mut inp = std::io::Cursor::new(data);
            match h.get_writer("png").unwrap().get_object_locations_from_stream(&mut inp) {
                Ok(v) => json!({"ok": true, "locs": v.iter().map(|p| json!({"offset": p.offset, "length": p.length, "cai": p.htype == HashBlockObjectType::Cai})).collect::<Vec<_>>()}),
                Err(_) => json!({"ok": false, "locs": []}),
            }
        }
        "png_box_map" => {
            use c2pa::verif_hooks::{png_io::PngIO, AssetBoxHash, AssetIO};
            let data: Vec<u8> = s(&a[0]).chars().map(|c| c as u32 as u8).collect();
            let mut cur = std::io::Cursor::new(data);
            let h = PngIO::new("png");
            match h.get_box_map(&mut cur) {
                Ok(v) => json!({"variant":"Ok","payload":[v.iter().map(|b| json!({"range_start": b.range_start, "range_len": b.range_len, "name": b.names.first()})).collect::<Vec<_>>()]}),
                Err(_) => json!({"variant":"Err","payload":[null]}),
            }
        }
        // BMFF header parsers on raw bytes: args = [data (latin-1), start position]
        "bmff_box_header" => {
            let data: Vec<u8> = s(&a[0]).chars().map(|c| c as u32 as u8).collect();
            let mut cur = std::io::Cursor::new(data);
            cur.set_position(a[1].as_u64().unwrap());
            match c2pa::verif_hooks::bmff_io::verif_hooks::box_header_lite_read(&mut cur) {
                Ok((size, large)) => json!({"variant":"Ok","payload":[{"size": size, "large_size": large}]}),
                Err(_) => json!({"variant":"Err","payload":[null]}),
            }
        }
        // the small BMFF helpers: args = [data (latin-1), start position, amount]
        "bmff_small_helpers" => {
            let data: Vec<u8> = s(&a[0]).chars().map(|c| c as u32 as u8).collect();
            let pos = a[1].as_u64().unwrap();
            let mk = || { let mut c = std::io::Cursor::new(data.clone()); c.set_position(pos); c };
            let r = c2pa::verif_hooks::bmff_io::verif_hooks::small_helpers(mk, a[2].as_u64().unwrap());
            json!({"ok": r.to_vec()})
        }
        // JUMBF box readers on raw bytes: args = [data (latin-1), start position, declared size]
        "jumbf_desc_box" => {
            let data: Vec<u8> = s(&a[0]).chars().map(|c| c as u32 as u8).collect();
            let mut cur = std::io::Cursor::new(data);
            cur.set_position(a[1].as_u64().unwrap());
            json!({"ok": c2pa::verif_hooks::boxes::BoxReader::read_desc_box(&mut cur, a[2].as_u64().unwrap()).is_ok()})
        }
        "jumbf_super_box" => {
            let data: Vec<u8> = s(&a[0]).chars().map(|c| c as u32 as u8).collect();
            let mut cur = std::io::Cursor::new(data);
            cur.set_position(a[1].as_u64().unwrap());
            json!({"ok": c2pa::verif_hooks::boxes::BoxReader::read_super_box(&mut cur).is_ok()})
        }
        "jumbf_content_boxes" => {
            let data: Vec<u8> = s(&a[0]).chars().map(|c| c as u32 as u8).collect();
            let mk = || { let mut c = std::io::Cursor::new(data.clone()); c.set_position(a[1].as_u64().unwrap()); c };
            let size = a[2].as_u64().unwrap();
            json!({"json": c2pa::verif_hooks::boxes::BoxReader::read_json_box(&mut mk(), size).is_ok(),
                   "cbor": c2pa::verif_hooks::boxes::BoxReader::read_cbor_box(&mut mk(), size).is_ok(),
                   "header": c2pa::verif_hooks::boxes::BoxReader::read_header(&mut mk()).is_ok()})
        }
        "bmff_ftyp" => {
            let data: Vec<u8> = s(&a[0]).chars().map(|c| c as u32 as u8).collect();
            let mut cur = std::io::Cursor::new(data);
            cur.set_position(a[1].as_u64().unwrap());
            match c2pa::verif_hooks::bmff_io::verif_hooks::read_ftyp_box(&mut cur) {
                Ok((minor, n)) => json!({"variant":"Ok","payload":[{"minor_version": minor, "brands": n}]}),
                Err(_) => json!({"variant":"Err","payload":[null]}),
            }
        }
        // real RedirectResolver over a scripted transport: args = [allow_redirects, [{redirect, internal, error}...]]
        "redirect_chain" => {
            let allow = a[0].as_bool().unwrap();
            let hops: Vec<(bool, bool, bool, bool)> = a[1].as_array().unwrap().iter()
                .map(|h| (h["redirect"].as_bool().unwrap(), h["internal"].as_bool().unwrap(), h["error"].as_bool().unwrap(), h["relative"].as_bool().unwrap_or(false))).collect();
            let t = Scripted { hops, calls: std::sync::atomic::AtomicUsize::new(0), reached_internal: std::sync::atomic::AtomicBool::new(false) };
            let tref = std::sync::Arc::new(t);
            let req = http::Request::get("http://example.com/start").body(Vec::new()).unwrap();
            let res = rh::redirect_resolve(ScriptedRef(tref.clone()), allow, req);
            json!({"ok": res.is_ok(), "calls": tref.calls.load(std::sync::atomic::Ordering::SeqCst),
                   "reached_internal": tref.reached_internal.load(std::sync::atomic::Ordering::SeqCst),
                   "error": res.err().map(|e| e.to_string())})
        }
        // MerkleAccumulator::add_merkle_leaf: args = [mdat bytes (latin-1), [cut offsets], large_size, fixed leaf size in BYTES]
        "merkle_accumulate" => {
            use c2pa::verif_hooks::merkle::MerkleAccumulator;
            let data: Vec<u8> = s(&a[0]).chars().map(|c| c as u32 as u8).collect();
            let cuts: Vec<usize> = a[1].as_array().unwrap().iter().map(|c| c.as_u64().unwrap() as usize).collect();
            let large = a[2].as_bool().unwrap();
            let f = a[3].as_u64().unwrap() as usize;
            let mut whole = MerkleAccumulator::new("sha256").unwrap();
            whole.fixed_size = Some(f);
            let whole_ok = whole.add_merkle_leaf(0, large, &data).is_ok();
            let mut pieces = MerkleAccumulator::new("sha256").unwrap();
            pieces.fixed_size = Some(f);
            let mut prev = 0usize;
            let mut pieces_ok = true;
            for c in cuts.iter().chain(std::iter::once(&data.len())) {
                if *c > prev {
                    pieces_ok &= pieces.add_merkle_leaf(0, large, &data[prev..*c]).is_ok();
                }
                prev = *c;
            }
            let same = whole.merkle_leaves.get(&0).cloned().unwrap_or_default() == pieces.merkle_leaves.get(&0).cloned().unwrap_or_default()
                && whole.fixed_size_remainder.get(&0).cloned().unwrap_or_default() == pieces.fixed_size_remainder.get(&0).cloned().unwrap_or_default();
            json!({"whole_ok": whole_ok, "pieces_ok": pieces_ok, "same": same,
                   "whole_leaves": whole.merkle_leaves.get(&0).map(|v| v.len()).unwrap_or(0),
                   "pieces_leaves": pieces.merkle_leaves.get(&0).map(|v| v.len()).unwrap_or(0)})
        }
        // Context::check_progress: args = [callback installed, callback returns, cancel flag, step, total]
        "check_progress" => {
            let installed = a[0].as_bool().unwrap();
            let ret = a[1].as_bool().unwrap();
            let flag = a[2].as_bool().unwrap();
            let called = std::sync::Arc::new(std::sync::atomic::AtomicBool::new(false));
            let c2 = called.clone();
            let mut ctx = c2pa::Context::new();
            if installed {
                ctx = ctx.with_progress_callback(move |_, _, _| { c2.store(true, std::sync::atomic::Ordering::SeqCst); ret });
            }
            if flag {
                ctx.cancel();
            }
            let r = ctx.verif_check_progress(a[3].as_u64().unwrap() as u32, a[4].as_u64().unwrap() as u32);
            json!({"ok": r.is_ok(), "cancelled": matches!(r, Err(c2pa::Error::OperationCancelled)), "called": called.load(std::sync::atomic::Ordering::SeqCst)})
        }
        // range hashing with a callback that cancels at call k: args = [data, [[s,l]], is_exclusion, max_hash_buf, k]
        "hash_cancel" => {
            let data: Vec<u8> = s(&a[0]).chars().map(|c| c as u32 as u8).collect();
            let ranges = a[1].as_array().map(|rs| rs.iter().map(|r| c2pa::HashRange::new(r[0].as_u64().unwrap(), r[1].as_u64().unwrap())).collect::<Vec<_>>());
            let excl = a[2].as_bool().unwrap();
            let maxbuf = a[3].as_u64().unwrap() as usize;
            let k = a[4].as_u64().unwrap() as usize;
            let mut steps: Vec<(u32, u32)> = Vec::new();
            let mut cur = std::io::Cursor::new(data);
            let res = c2pa::verif_hooks::hash_hooks::hash_stream_with_max_buf("sha256", &mut cur, ranges, excl, maxbuf, &mut |s_, t_| {
                steps.push((s_, t_));
                if steps.len() == k + 1 { Err(c2pa::Error::OperationCancelled) } else { Ok(()) }
            });
            json!({"ok": res.is_ok(), "cancelled": matches!(res, Err(c2pa::Error::OperationCancelled)), "steps": steps})
        }
        // real range hashing: args = [data (latin-1 text), [[start,len]..] | null, is_exclusion, max_hash_buf, expected bytes (hex)]
        // C01: the range-hashing routine with a chosen internal buffer size over two data strings (real SHA-256):
        // args = [d0, d1, [[start, len], ...], max_buf] -> would a hash generated over d0 verify against d1?
        "data_hash_tamper_chunked" => {
            let mk = |v: &Value| -> Vec<u8> { s(v).chars().map(|c| c as u32 as u8).collect() };
            let ranges = |_: ()| -> Option<Vec<c2pa::HashRange>> {
                let rs = a[2].as_array().unwrap();
                if rs.is_empty() { None } else { Some(rs.iter().map(|r| c2pa::HashRange::new(r[0].as_u64().unwrap(), r[1].as_u64().unwrap())).collect()) }
            };
            let maxbuf = a[3].as_u64().unwrap() as usize;
            let h0 = c2pa::verif_hooks::hash_hooks::hash_stream_with_max_buf("sha256", &mut std::io::Cursor::new(mk(&a[0])), ranges(()), true, maxbuf, &mut |_, _| Ok(()));
            let h1 = c2pa::verif_hooks::hash_hooks::hash_stream_with_max_buf("sha256", &mut std::io::Cursor::new(mk(&a[1])), ranges(()), true, maxbuf, &mut |_, _| Ok(()));
            match (h0, h1) {
                (Ok(x), Ok(y)) => json!({"gen_ok": true, "verify_ok": c2pa::verif_hooks::merkle::vec_compare(&x, &y)}),
                (Ok(_), Err(_)) => json!({"gen_ok": true, "verify_ok": false}),
                _ => json!({"gen_ok": false, "verify_ok": false}),
            }
        }
        "hash_ranges" => {
            let data: Vec<u8> = s(&a[0]).chars().map(|c| c as u32 as u8).collect();
            let ranges = a[1].as_array().map(|rs| rs.iter().map(|r| {
                let mut h = c2pa::HashRange::new(r[0].as_u64().unwrap(), r[1].as_u64().unwrap());
                if let Some(o) = r.get(2).and_then(|v| v.as_u64()) {
                    h.set_bmff_offset(o);
                }
                h
            }).collect::<Vec<_>>());
            let excl = a[2].as_bool().unwrap();
            let maxbuf = a[3].as_u64().unwrap() as usize;
            let want = hex_bytes(s(&a[4]));
            let mut steps: Vec<(u32, u32)> = Vec::new();
            let mut cur = std::io::Cursor::new(data);
            let res = c2pa::verif_hooks::hash_hooks::hash_stream_with_max_buf("sha256", &mut cur, ranges, excl, maxbuf, &mut |s_, t_| { steps.push((s_, t_)); Ok(()) });
            let expect = c2pa::verif_hooks::merkle::hash_by_alg("sha256", &want, None);
            match res {
                Ok(d) => json!({"ok": true, "matches_expected": if want.is_empty() { d == {use std::io::Write; let mut v = Vec::new(); v.write_all(&sha256_empty()).unwrap(); v} } else { d == expect }, "steps": steps}),
                Err(e) => json!({"ok": false, "error": e.to_string(), "steps": steps}),
            }
        }
        "normalize_host" => json!(rh::normalize_host(s(&a[0]))),
        "looks_like_obfuscated_ip" => json!(rh::looks_like_obfuscated_ip(s(&a[0]))),
        // host_is_non_global on a URI string; {"uri_error": ..} when http::Uri rejects the text
        "host_is_non_global_uri" => match uri_of(&a[0]) {
            Ok(u) => json!({"host": u.host(), "result": rh::host_is_non_global(&u)}),
            Err(e) => json!({"uri_error": e}),
        },
        "host_is_non_global_bool" => match uri_of(&a[0]) {
            Ok(u) => json!(rh::host_is_non_global(&u)),
            Err(e) => json!({"uri_error": e}),
        },
        // HostPattern::new(pattern).matches(uri)
        "host_pattern_matches" => match uri_of(&a[1]) {
            Ok(u) => json!({"host": u.host(), "port": u.port().map(|p| p.as_str().to_owned()), "scheme": u.scheme_str(),
                            "result": HostPattern::new(s(&a[0])).matches(&u)}),
            Err(e) => json!({"uri_error": e}),
        },
        // composite used by differential validation: HostPattern::new(p).matches(uri) -> bool
        "pattern_matches_bool" => match uri_of(&a[1]) {
            Ok(u) => json!(HostPattern::new(s(&a[0])).matches(&u)),
            Err(e) => json!({"uri_error": e}),
        },
        "host_pattern_new_identity" => json!({"pattern": s(&a[0])}),
        "host_pattern_matches_result" => match uri_of(&a[1]) {
            Ok(u) => json!(HostPattern::new(s(&a[0])).matches(&u)),
            Err(e) => json!({"uri_error": e}),
        },
        // RestrictedResolver over a recording transport: args = [patterns | null, uri]
        "restricted_resolver_reached" => match uri_of(&a[1]) {
            Ok(u) => {
                let inner = Recorder::default();
                let mut r = c2pa::http::restricted::RestrictedResolver::new(inner);
                if let Some(ps) = a[0].as_array() {
                    r.set_allowed_hosts(Some(ps.iter().map(|p| HostPattern::new(s(p))).collect()));
                }
                let req = http::Request::get(u).body(Vec::new()).unwrap();
                let res = c2pa::http::SyncHttpResolver::http_resolve(&r, req);
                json!({"reached": REACHED.with(|c| c.replace(false)), "err": res.is_err()})
            }
            Err(e) => json!({"uri_error": e}),
        },
        "is_uri_allowed" => match uri_of(&a[1]) {
            Ok(u) => {
                let pats: Vec<HostPattern> = a[0].as_array().unwrap().iter().map(|p| HostPattern::new(s(p))).collect();
                json!({"result": rh::is_uri_allowed(&pats, &u)})
            }
            Err(e) => json!({"uri_error": e}),
        },
        // build_redirected_request: args = [[name, value]...]; returns the forwarded header names
        "redirect_forwarded_headers" => {
            let mut hm = http::HeaderMap::new();
            for kv in a[0].as_array().unwrap() {
                let name = match http::header::HeaderName::from_bytes(s(&kv[0]).as_bytes()) {
                    Ok(n) => n,
                    Err(e) => return json!({"header_error": e.to_string()}),
                };
                let val = match http::header::HeaderValue::from_str(s(&kv[1])) {
                    Ok(v) => v,
                    Err(e) => return json!({"header_error": e.to_string()}),
                };
                hm.append(name, val);
            }
            match rh::build_redirected_request(http::Method::GET, hm, Vec::new(), "https://example.com/x".parse().unwrap()) {
                Ok(req) => json!({"names": req.headers().iter().map(|(n, _)| n.as_str().to_owned()).collect::<Vec<_>>()}),
                Err(e) => json!({"build_error": e.to_string()}),
            }
        }
        other => json!({"unknown_function": other}),
    }
}

fn main() {
    let mut inp = String::new();
    std::io::stdin().read_to_string(&mut inp).expect("stdin");
    let calls: Vec<Value> = serde_json::from_str(&inp).expect("json");
    let mut out = Vec::new();
    for c in calls {
        let f = c["f"].as_str().unwrap().to_owned();
        let a = c["a"].as_array().cloned().unwrap_or_default();
        let r = std::panic::catch_unwind(|| call(&f, &a));
        out.push(match r {
            Ok(v) => json!({"ok": v}),
            Err(_) => json!({"panic": true}),
        });
    }
    println!("{}", serde_json::to_string(&out).unwrap());
}

"""C09 (PNG kernel) -- embedding and removing a manifest preserves the media content.
See png_rw.py for the kernel, the input description and the models.

The media content of a PNG is everything but its caBX chunk.  `strip` below is an ORACLE computed on the
input side (from the chunk walk of the bytes, not from the code under analysis): the file with its caBX
chunk cut out.  For every valid PNG in the bound and every store in the bound:
  * remove_cai_store_from_stream(x) == strip(x)                       (removal deletes the manifest chunk and nothing else)
  * strip(write_cai(x, s)) == strip(x)                                 (embedding/replacing keeps every other chunk's bytes and order)
  * thorough: remove(write(x, s)) == remove(x)                         (executed end to end, two handler runs)
PNG stores no absolute file offsets, so the offset clause of the property has no PNG counterpart.
"""
import z3

import bstr
from bstr import BStr, bv, b8, ult, ule, ugt, uge
from symex import VStr, VInt, VBool, VStruct, VVec, VEnum, VUnit, is_ok, ok, TAG
import png_rw as K

FILES = K.FILES
OVERRIDES = K.OVERRIDES


def caps(tier):
    return dict(rest=42, store=3, wide=50, rw=42) if tier == "quick" else dict(rest=52, store=3, wide=54, rw=42)


def py_strip(data):
    """python twin of K.strip_cabx for native replay: data is a latin-1 string"""
    b = data.encode("latin-1")
    pos = 8
    while pos + 12 <= len(b):
        ln = int.from_bytes(b[pos:pos + 4], "big")
        name = b[pos + 4:pos + 8]
        end = pos + 12 + ln
        if end > len(b):
            break
        if name == b"caBX":
            return (b[:pos] + b[end:]).decode("latin-1")
        if name == b"IEND":
            break
        pos = end
    return data


def _j(v):
    import symex
    return symex.concrete(v)


def make_queries(tier):
    C = caps(tier)
    NCH = C["rest"] // 12

    WCH = C["wide"] // 12

    def q_png_remove_is_strip(E):
        """removal deletes exactly the manifest chunk: remove(x) == x without its caBX chunk"""
        data, rest = K.png_input(E, C["wide"])
        if E.mode != "symbolic":
            w = E.native("png_remove", [_j(data)])
            E.prove("removal yields the asset without its manifest chunk and nothing else changed", z3.BoolVal((not w["ok"]) or w["out"] == py_strip(_j(data))))
            return
        I = E.I
        I.loop_bound = WCH + 2
        valid, st, ncabx = K.valid_png(data.e, WCH)
        E.assume(valid)
        rm, out = K.run_remove(E, data)
        want, has = K.strip_cabx(data.e, st, C["wide"] + 8)
        E.prove("removal yields the asset without its manifest chunk and nothing else changed", z3.Implies(is_ok(rm), bstr.eq(out.e, want)))
        E.cover("manifest between two other chunks removed", z3.And(is_ok(rm), st[1]["here"], st[1]["is_cabx"]))
        E.cover("manifest preceded by another chunk removed", z3.And(is_ok(rm), st[2]["here"], st[2]["is_cabx"]))
        E.cover("no manifest: output equals input", z3.And(is_ok(rm), z3.Not(has)))

    def mk_preserve(case):
      def q(E):
        data, rest = K.png_input(E, C["rest"])
        store = E.str("store", C["store"], "bytes")
        if E.mode != "symbolic":
            w = E.native("png_write", [_j(data), _j(store)])
            E.prove("every non-manifest byte of the asset is preserved, in order", z3.BoolVal((not w["ok"]) or py_strip(w["out"]) == py_strip(_j(data))))
            E.prove("the written asset carries the manifest chunk directly after IHDR", z3.BoolVal((not w["ok"]) or py_strip(w["out"]) != w["out"]))
            return
        I = E.I
        I.loop_bound = NCH + 2
        valid, st, ncabx = K.valid_png(data.e, NCH)
        E.assume(valid)
        # case split on where the existing manifest chunk is (the cases are exhaustive; one query each, run in parallel)
        if case == 0:
            E.assume(ncabx == bv(0))
        else:
            E.assume(z3.And(st[case]["here"], st[case]["is_cabx"]))
        wr, out = K.run_write(E, data, store)
        # the oracle strip(x), specialised to the case (same definition as K.strip_cabx under the case assumption)
        d = data.e
        if case == 0:
            want, has = d, z3.BoolVal(False)
        else:
            cs, ce = st[case]["start"], st[case]["end"]
            want, has = bstr.concat(bstr.substr(d, bv(0), cs), bstr.substr(d, ce, d.n - ce)), z3.BoolVal(True)
        want = bstr.named(want, I.side, "want")
        # the new chunk sits directly after IHDR (the first chunk of a valid PNG); cutting its 12 + |s| bytes out of the
        # output must give back the input without its old manifest chunk
        p = st[0]["end"]
        n = store.e.n
        o = out.e
        hdr = bstr.substr(o, p, bv(8))
        ln = z3.Concat(*(hdr.b + [b8(0)] * 8)[:4])
        E.prove("every non-manifest byte of the asset is preserved, in order",
                z3.Implies(is_ok(wr), z3.And(o.n == want.n + bv(12) + n, ule(p, want.n),
                                             bstr.eq(bstr.substr(o, bv(0), p), bstr.substr(want, bv(0), p)),
                                             bstr.eq(bstr.substr(o, p + bv(12) + n, want.n - p), bstr.substr(want, p, want.n - p)))))
        E.prove("the written asset carries the manifest chunk directly after IHDR",
                z3.Implies(is_ok(wr), z3.And(z3.ZeroExt(32, ln) == n, bstr.eq(BStr((hdr.b + [b8(0)] * 8)[4:8], bv(4)), bstr.lit("caBX")),
                                             bstr.eq(bstr.substr(o, p + bv(8), n), store.e))))
        if case == 0:
            E.cover("fresh embed", z3.And(is_ok(wr), z3.Not(has)))
        else:
            E.cover("replace: existing manifest is chunk %d" % case, z3.And(is_ok(wr), has))
      q.__name__ = "q_png_write_preserves_media_%s" % ("fresh" if case == 0 else "old_manifest_at_chunk_%d" % case)
      q.__doc__ = "embedding or replacing keeps every non-manifest chunk's bytes and order (case: %s)" % q.__name__[len("q_png_write_preserves_media_"):]
      return q

    def q_png_remove_after_write(E):
        """removing the manifest from an embedded asset gives the same bytes as removing it from the original (two handler runs)"""
        data, rest = K.png_input(E, C["rw"])
        store = E.str("store", C["store"], "bytes")
        if E.mode != "symbolic":
            w = E.native("png_write", [_j(data), _j(store)])
            a = E.native("png_remove", [w["out"]]) if w["ok"] else {"ok": False}
            b = E.native("png_remove", [_j(data)])
            E.prove("remove(write(x, s)) == remove(x)", z3.BoolVal((not w["ok"]) or (a["ok"] and b["ok"] and a["out"] == b["out"])))
            return
        I = E.I
        RCH = C["rw"] // 12
        I.loop_bound = RCH + 3
        valid, st, ncabx = K.valid_png(data.e, RCH)
        E.assume(valid)
        wr, out = K.run_write(E, data, store)
        rm1, o1 = K.run_remove(E, out)
        rm0, o0 = K.run_remove(E, data)
        E.prove("remove(write(x, s)) == remove(x)", z3.Implies(is_ok(wr), z3.And(is_ok(rm1), is_ok(rm0), bstr.eq(o1.e, o0.e))))
        E.cover("reached with an existing manifest", z3.And(is_ok(wr), ncabx == bv(1)))

    def q_png_write_preserves_length(E):
        """embedding or replacing neither drops nor duplicates bytes: |write(x, s)| == |strip(x)| + 12 + |s| (one more chunk than the
        byte-exact queries; lengths only)"""
        data, rest = K.png_input(E, C["wide"])
        store = E.str("store", C["store"], "bytes")
        if E.mode != "symbolic":
            w = E.native("png_write", [_j(data), _j(store)])
            E.prove("the written asset is exactly one manifest chunk longer than the asset without its old manifest",
                    z3.BoolVal((not w["ok"]) or len(w["out"]) == len(py_strip(_j(data))) + 12 + len(_j(store))))
            return
        I = E.I
        I.loop_bound = WCH + 2
        valid, st, ncabx = K.valid_png(data.e, WCH)
        E.assume(valid)
        wr, out = K.run_write(E, data, store)
        old_len = bv(0)
        for s_ in st:
            old_len = old_len + z3.If(z3.And(s_["here"], s_["is_cabx"]), s_["end"] - s_["start"], bv(0))
        E.prove("the written asset is exactly one manifest chunk longer than the asset without its old manifest",
                z3.Implies(is_ok(wr), out.e.n == data.e.n - old_len + bv(12) + store.e.n))
        E.cover("old manifest preceded by another chunk", z3.And(is_ok(wr), st[2]["here"], st[2]["is_cabx"]))

    qs = [q_png_remove_is_strip, q_png_write_preserves_length] + [mk_preserve(c) for c in range(0, NCH - 1)]
    if tier == "thorough":
        qs.append(q_png_remove_after_write)
    return qs


import props_c07 as _c07
COMPOSITES = _c07.COMPOSITES
VECTORS = _c07.VECTORS
NATIVE_MAP = {}

"""C10 (Engine-Z part) -- untrusted input never crashes: the BMFF header parsers that Kani could not
execute (String::from_utf8_lossy made BoxHeaderLite::read time out) are executed from source.
Sources: sdk/src/asset_handlers/bmff_io.rs BoxHeaderLite::read, read_ftyp_box, read_box_header_ext,
meta_box_lacks_fullbox_header, skip_bytes_to, _skip_bytes, box_start; sdk/src/jumbf/boxes.rs
BoxReader::read_header.  Obligations are the interpreter's panic obligations: arithmetic overflow
and underflow (dev profile), slice/index out of range, unwrap on None, length mismatch in
clone_from_slice -- for EVERY byte string up to the bound and every start position.
"""
import z3

import bstr
from bstr import bv, b8, ult, ule, ugt, uge
from symex import VStr, VInt, VBool, VStruct, VEnum, VUnit, none, some, is_ok, ok, TAG, err
import models_stream as ms

BMFF = "/repo/sdk/src/asset_handlers/bmff_io.rs"
BOXES = "/repo/sdk/src/jumbf/boxes.rs"
FILES = [BMFF]


def caps(tier):
    return dict(data=24, long=300) if tier == "quick" else dict(data=32, long=600)


OVERRIDES = dict(ms.OVERRIDES)
OVERRIDES["BoxType::from"] = lambda I, a, pc: a[0]
OVERRIDES["From::from"] = lambda I, a, pc: a[0]


def engine_json(v):
    import symex
    return symex.concrete(v)


def LITS():
    return ms.boxtype_consts(BMFF)


def make_queries(tier):
    C = caps(tier)

    def data_and_stream(E, cap, with_pos=True):
        d = E.str("data", cap, "ascii" if False else "printable")
        return d

    def raw_bytes(E, name, cap):
        """arbitrary bytes (not only ASCII): the parsers read binary headers"""
        return E.str(name, cap, "bytes")

    def q_bmff_box_header(E):
        """BoxHeaderLite::read on every stream and every start position: no panic; size-0 boxes extend to the end"""
        d = raw_bytes(E, "data", C["data"])
        pos = E.int("start", C["data"] + 2)
        st = ms.stream(d, pos)
        r = E.call("BoxHeaderLite::read", st)
        h = r.payload["Ok"][0]
        E.prove("a size-0 box reaches to the end of the stream",
                z3.Implies(z3.And(is_ok(r), z3.Not(h.fields["large_size"].e), ule(pos.e + bv(8), d.e.n),
                                  bstr.eq(bstr.substr(d.e, pos.e, bv(4)), bstr.lit(bytes(4)))),
                           h.fields["size"].e == d.e.n - pos.e))
        E.cover("64-bit size", z3.And(is_ok(r), h.fields["large_size"].e))
        E.cover("truncated header rejected", z3.Not(is_ok(r)))

    def q_bmff_ftyp(E):
        """read_ftyp_box on every stream (declared sizes up to u64::MAX): no panic"""
        d = raw_bytes(E, "data", C["data"])
        st = ms.stream(d, 0)
        if E.mode == "symbolic":
            E.I.loop_bound = C["data"] // 4 + 2
        r = E.call("read_ftyp_box", st)
        E.cover("ftyp with two compatible brands", z3.And(is_ok(r), bstr.eq(bstr.substr(d.e, bv(4), bv(4)), bstr.lit("ftyp")), uge(d.e.n, bv(24))))
        E.cover("large-size ftyp", z3.And(bstr.eq(bstr.substr(d.e, bv(0), bv(8)), bstr.lit(bytes([0, 0, 0, 1]) + b"ftyp")), uge(d.e.n, bv(16))))
        E.cover("rejected", z3.Not(is_ok(r)))

    def q_bmff_small_helpers(E):
        """read_box_header_ext, meta_box_lacks_fullbox_header, _skip_bytes, skip_bytes_to, box_start: no panic"""
        d = raw_bytes(E, "data", 16)
        pos = E.int("start", 18)
        if E.mode != "symbolic":
            # native replay: the four helpers on fresh cursors over the solver's bytes (a panic reproduces the finding)
            amount = E.int("amount")
            E.native("bmff_small_helpers", [engine_json(d), int(E.model_inputs["start"]), int(E.model_inputs["amount"])])
            return
        E.call("read_box_header_ext", ms.stream(d, pos))
        E.call("meta_box_lacks_fullbox_header", ms.stream(d, pos))
        amount = E.int("amount")
        r = E.call("_skip_bytes", ms.stream(d, pos), amount)
        E.call("skip_bytes_to", ms.stream(d, pos), amount)
        E.cover("skip past u64::MAX rejected", z3.Not(is_ok(r)))
        E.cover("skip accepted", is_ok(r))

    def q_bmff_ftyp_long(E):
        """read_ftyp_box at every start position of a long stream (room for 60+ brands; declared sizes up to u64::MAX): no panic"""
        d = raw_bytes(E, "data", C["long"])
        pos = E.int("start", 40)
        st = ms.stream(d, pos)
        if E.mode == "symbolic":
            E.I.loop_bound = C["long"] // 4 + 2
        r = E.call("read_ftyp_box", st)
        E.cover("ftyp accepted at a non-zero offset", z3.And(is_ok(r), ugt(pos.e, bv(0))))
        E.cover("rejected", z3.Not(is_ok(r)))

    return [q_bmff_box_header, q_bmff_ftyp, q_bmff_small_helpers, q_bmff_ftyp_long]


def _stream_args(a):
    st = a[0]
    return [st["bytes"], st["pos"]]


NATIVE_MAP = {"BoxHeaderLite::read": ("bmff_box_header", _stream_args), "read_ftyp_box": ("bmff_ftyp", _stream_args)}


# ---- encoder validation: the interpreter and the real parsers on concrete boxes ----------------------------
def _comp_ftyp(I, args):
    from symex import VVec, VTuple
    import symex
    data, pos = args
    I.loop_bound = 80
    r = I.call("read_ftyp_box", [ms.stream(VStr(bstr.lit(I.raw_args[0].encode("latin-1"))), bstr.cval(pos.e))])
    if z3.is_true(z3.simplify(is_ok(r))):
        f = r.payload["Ok"][0]
        return ok(VStruct("?", {"minor_version": f.fields["minor_version"], "brands": VInt(z3.simplify(f.fields["compatible_brands"].n))}))
    return VEnum("Result", TAG("Result", "Err"), {"Err": [VUnit()]})


def _comp_hdr(I, args):
    import symex
    data, pos = args
    r = I.call("BoxHeaderLite::read", [ms.stream(VStr(bstr.lit(I.raw_args[0].encode("latin-1"))), bstr.cval(pos.e))])
    if z3.is_true(z3.simplify(is_ok(r))):
        h = r.payload["Ok"][0]
        return ok(VStruct("?", {"size": h.fields["size"], "large_size": h.fields["large_size"]}))
    return VEnum("Result", TAG("Result", "Err"), {"Err": [VUnit()]})


def _b(x):
    return bytes(x).decode("latin-1")


def _ftyp(brands, large=False, size=None):
    body = b"isom" + bytes([0, 0, 2, 0]) + b"".join(brands)
    n = (16 if large else 8) + len(body)
    size = n if size is None else size
    if large:
        return bytes([0, 0, 0, 1]) + b"ftyp" + size.to_bytes(8, "big") + body
    return size.to_bytes(4, "big") + b"ftyp" + body


COMPOSITES = {"@ftyp": (_comp_ftyp, "bmff_ftyp", None), "@hdr": (_comp_hdr, "bmff_box_header", None)}
VECTORS = [
    ("@ftyp", [_b(_ftyp([b"isom", b"mp42"])), 0]),
    ("@ftyp", [_b(bytes(8) + _ftyp([b"isom", b"mp42", b"avc1"])), 8]),
    ("@ftyp", [_b(_ftyp([b"isom"], large=True)), 0]),
    ("@ftyp", [_b(bytes(20) + _ftyp([b"isom", b"mp42"], large=True) + bytes(12)), 20]),
    ("@ftyp", [_b(_ftyp([b"isom", b"mp42"], size=64)), 0]),       # declared size beyond the data
    ("@ftyp", [_b(_ftyp([b"isom"], large=True, size=2 ** 64 - 20)), 0]),
    ("@ftyp", [_b(bytes([0, 0, 0, 16]) + b"moov" + bytes(8)), 0]),  # no ftyp: defaults
    ("@ftyp", [_b(_ftyp([b"isom"], size=14)), 0]),
    ("@hdr", [_b(_ftyp([b"isom", b"mp42"])), 0]),
    ("@hdr", [_b(bytes(3) + _ftyp([b"isom"], large=True)), 3]),
    ("@hdr", [_b(bytes([0, 0, 0, 0]) + b"mdat" + bytes(9)), 0]),
    ("@hdr", [_b(bytes(5)), 0]),
]

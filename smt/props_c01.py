"""C01 (data-hash kernel) -- tamper evidence: bound content cannot change without detection.
Sources executed symbolically: sdk/src/assertions/data_hash.rs DataHash::gen_hash_from_stream_with_progress,
DataHash::verify_stream_hash_with_progress, DataHash::is_remote_hash; sdk/src/utils/hash_utils.rs vec_compare,
hash_stream_by_alg_with_progress and the complete range-hashing routine of C13 (same models as C13: the digest is a
RECORDER of its input, in-memory stream, RangeSet by specification, worker thread at spawn).

With the recorder digest "the stored hash equals the computed hash" means "the stored hash is the byte sequence that was
fed to the digest", i.e. the check is decided under the IDEAL-HASH assumption (no collisions); everything else -- which
bytes are fed, how the stored and the computed value are compared, how errors propagate -- is the real code.

Decided for all original data d0, all (possibly tampered) data d1, all exclusion ranges and chunk sizes in the bound:
a DataHash generated over d0 verifies against d1  IF AND ONLY IF  the non-excluded bytes of d1 are exactly those of d0.
So any change, insertion or removal of a bound byte is reported as a hash mismatch, and changes inside an exclusion are not.
Also: an arbitrary stored hash verifies only if it equals the digest input (no prefix / length confusion in vec_compare).
"""
import z3

import bstr
from bstr import BStr, bv, b8, ult, ule, ugt, uge
from symex import (VStr, VInt, VBool, VStruct, VVec, VEnum, VUnit, VTuple, VPyFn, Effects, none, some, veq, opt, is_some, is_ok, ok, err, TAG)
import props_c13 as H

FILES = ["/repo/sdk/src/assertions/data_hash.rs", "/repo/sdk/src/utils/hash_utils.rs"]
OVERRIDES = dict(H.OVERRIDES)
OVERRIDES.update({
    "NonZeroUsize::new": lambda I, a, pc: some(a[0]),
    "Error::HashMismatch": lambda I, a, pc: VEnum("Error", TAG("Error", "HashMismatch"), {}),
    "Error::BadParam": lambda I, a, pc: VEnum("Error", TAG("Error", "BadParam"), {}),
})


def caps(tier):
    return dict(data=4) if tier == "quick" else dict(data=5)


def data_hash(alg, stored, ranges, remote=False):
    excl = some(VVec([VStruct("HashRange", {"start": s, "length": l, "bmff_offset": none()}) for s, l in ranges])) if ranges else none()
    return VStruct("DataHash", {"alg": alg, "hash": stored, "exclusions": excl, "url": some(VStr(bstr.lit("u"))) if remote else none(),
                                "name": none(), "pad": VStr(bstr.lit("")), "pad2": none()})


def keep_mask(d, ranges):
    return [z3.And([z3.Not(z3.And(ugt(l.e, bv(0)), ule(s.e, bv(p)), ult(bv(p) - s.e, l.e))) for s, l in ranges] or [z3.BoolVal(True)]) for p in range(d.cap)]


def fits(d, ranges):
    return z3.And([z3.And(z3.BVAddNoOverflow(s.e, l.e, False), ule(s.e + l.e, d.n)) for s, l in ranges] or [z3.BoolVal(True)])


def make_queries(tier):
    C = caps(tier)

    def common(E, wasm):
        I = E.I
        I.cfg_values['target_arch="wasm32"'] = wasm
        I.buffer_cap = C["data"]
        I.loop_bound = C["data"] + 1
        chunk = E.int("max_hash_buf", C["data"])
        E.assume(uge(chunk.e, bv(1)))
        I.consts["MAX_HASH_BUF"] = chunk      # the routine's internal buffer size: symbolic, so every chunking is covered

        def progress(I_, args, pc):
            return ok(VUnit())
        return VPyFn(progress)

    def mk_tamper(nranges, wasm):
        def q(E):
            if E.mode != "symbolic":
                return replay_tamper(E, nranges)
            prog = common(E, wasm)
            d0 = E.str("original", C["data"], "bytes", min_len=1)
            d1 = E.str("received", C["data"], "bytes", min_len=1)
            ranges = [(E.int("start%d" % i, C["data"] + 1), E.int("length%d" % i, C["data"] + 1)) for i in range(nranges)]
            E.assume(z3.And(fits(d0.e, ranges), fits(d1.e, ranges)))
            dh = data_hash(some(VStr(bstr.lit("sha256"))), VStr(bstr.lit("")), ranges)
            I = E.I
            env = {"dh": dh, "s0": VStruct("Stream", {"bytes": d0, "pos": VInt(0)}), "s1": VStruct("Stream", {"bytes": d1, "pos": VInt(0)}), "prog": prog}
            import symex
            I.frames.append(symex.Frame("<driver>"))
            try:
                g, env, _ = I.eval({"k": "mcall", "line": 0, "recv": {"k": "path", "path": "dh"}, "method": "gen_hash_from_stream_with_progress", "turbofish": None,
                                    "args": [{"k": "ref", "mutable": True, "expr": {"k": "path", "path": "s0"}}, {"k": "ref", "mutable": True, "expr": {"k": "path", "path": "prog"}}]},
                                   env, z3.BoolVal(True))
                v, env, _ = I.eval({"k": "mcall", "line": 0, "recv": {"k": "path", "path": "dh"}, "method": "verify_stream_hash_with_progress", "turbofish": None,
                                    "args": [{"k": "ref", "mutable": True, "expr": {"k": "path", "path": "s1"}}, {"k": "path", "path": "none_alg"},
                                             {"k": "ref", "mutable": True, "expr": {"k": "path", "path": "prog"}}]},
                                   dict(env, none_alg=none()), z3.BoolVal(True))
            finally:
                I.frames.pop()
            sel0 = H.select_positions(d0.e, keep_mask(d0.e, ranges))
            sel1 = H.select_positions(d1.e, keep_mask(d1.e, ranges))
            same = bstr.eq(sel0, sel1)
            gen_ok = is_ok(g)
            E.prove("generating the hash over the original succeeds unless nothing is bound", z3.Implies(ugt(sel0.n, bv(0)), gen_ok))
            E.prove("a change to any bound byte is reported (verification fails)", z3.Implies(z3.And(gen_ok, z3.Not(same)), z3.Not(is_ok(v))))
            E.prove("unchanged bound content verifies, whatever happens inside the exclusions", z3.Implies(z3.And(gen_ok, same), is_ok(v)))
            E.cover("tampered bound byte detected", z3.And(gen_ok, z3.Not(same), d0.e.n == d1.e.n))
            if nranges:
                E.cover("a change inside the exclusion is tolerated", z3.And(gen_ok, same, z3.Not(bstr.eq(d0.e, d1.e))))
            E.cover("truncated asset detected", z3.And(gen_ok, ult(d1.e.n, d0.e.n), z3.Not(is_ok(v))))
        q.__name__ = "q_tamper_%dr_%s" % (nranges, "seq" if wasm else "pipe")
        q.__doc__ = ("DataHash generated over the original and verified against received data with %d exclusion range(s), %s branch of the hashing routine"
                     % (nranges, "sequential" if wasm else "read-ahead pipeline"))
        return q

    def q_stored_hash_compare(E):
        """an arbitrary stored hash verifies only if it equals the digest input exactly (vec_compare: no prefix or length confusion)"""
        if E.mode != "symbolic":
            mi = E.model_inputs
            r = E.native("vec_compare", [mi["a"], mi["b"]])
            E.prove("vec_compare(a, b) is byte-string equality", z3.BoolVal(bool(r) == (mi["a"] == mi["b"])))
            return
        a = E.str("a", 6, "bytes")
        b = E.str("b", 6, "bytes")
        E.I.loop_bound = 8
        r = E.call("vec_compare", a, b)
        E.prove("vec_compare(a, b) is byte-string equality", r.e == bstr.eq(a.e, b.e))
        E.cover("equal", r.e)
        E.cover("proper prefix is unequal", z3.And(z3.Not(r.e), bstr.prefixof(a.e, b.e)))

    def q_remote_hash_refused(E):
        """a DataHash that points to a remote hash is never reported as verified"""
        if E.mode != "symbolic":
            return
        prog = common(E, True)
        d1 = E.str("received", C["data"], "bytes")
        dh = data_hash(some(VStr(bstr.lit("sha256"))), E.str("stored", 4, "bytes"), [], remote=True)
        v = E.I.call("DataHash::verify_stream_hash_with_progress", [dh, VStruct("Stream", {"bytes": d1, "pos": VInt(0)}), none(), prog])
        E.prove("remote hash: verification is refused", z3.Not(is_ok(v)))
        E.cover("reached", z3.BoolVal(True))

    qs = [mk_tamper(0, True), mk_tamper(1, True), q_stored_hash_compare, q_remote_hash_refused]
    if tier == "thorough":
        qs += [mk_tamper(1, False), mk_tamper(2, True)]
    return qs


def replay_tamper(E, nranges):
    mi = E.model_inputs
    rs = [[mi["start%d" % i], mi["length%d" % i]] for i in range(nranges)]
    d0, d1 = mi["original"].encode("latin-1"), mi["received"].encode("latin-1")

    def sel(d):
        return bytes(b for p, b in enumerate(d) if not any(l > 0 and s <= p < s + l for s, l in rs))
    r = E.native("data_hash_tamper", [mi["original"], mi["received"], rs])
    same = sel(d0) == sel(d1)
    if r["gen_ok"] and (same == bool(r["verify_ok"])):
        # the public DataHash API uses the production buffer size (256 MiB); the solver's input also fixes the routine's internal
        # buffer size, so run the real routine with that size through the hook and apply the real vec_compare to the two digests
        r = E.native("data_hash_tamper_chunked", [mi["original"], mi["received"], rs, int(mi.get("max_hash_buf", 1))])
    E.prove("generating the hash over the original succeeds unless nothing is bound", z3.BoolVal(len(sel(d0)) == 0 or r["gen_ok"]))
    E.prove("a change to any bound byte is reported (verification fails)", z3.BoolVal((not r["gen_ok"]) or same or not r["verify_ok"]))
    E.prove("unchanged bound content verifies, whatever happens inside the exclusions", z3.BoolVal((not r["gen_ok"]) or (not same) or r["verify_ok"]))


NATIVE_MAP = {}
VECTORS = [("vec_compare", [a, b]) for a, b in (("", ""), ("a", ""), ("ab", "ab"), ("ab", "abc"), ("abc", "abd"), ("\x00", "\x00\x00"))]

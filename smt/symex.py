"""Symbolic interpreter for a subset of Rust, over the syn AST dumped by /verif/smt/astdump
from /repo's current source, producing z3 bit-vector terms (bounded byte strings, see bstr.py).

This is "Engine Z" of DESIGN.md: the string-processing kernels of c2pa-rs (labels, host
patterns, host normalisation, archive path sanitising) are executed symbolically FROM THEIR
SOURCE TEXT -- the encoding is regenerated from /repo on every run -- with every input string
an SMT variable; properties become validity queries decided by z3 (and cross-checked with cvc5).

Design:
  * guarded (merging) symbolic execution: no path forking, if/match merge values with ite; every
    function activation collects (guard, value) pairs for its `return`s.
  * panics (index out of bounds, unwrap on None, usize underflow, explicit panic!) are recorded as
    obligations (guard must be unsatisfiable).
  * bounded constructs (split -> at most K separators, per-character maps -> at most N chars) record
    *unwinding obligations*: if one is satisfiable the bound was too small and the run is
    inconclusive (never a pass).
  * library functions are *models* written here (the trusted base, listed in evidence and validated
    on every run by differential execution against the real code on concrete inputs).
  * anything not understood raises Unsupported: the check fails closed (inconclusive).
"""
import z3

import bstr
from bstr import BStr, bv, b8, ult, ule, ugt, uge, cval


class Unsupported(Exception):
    pass


# ------------------------------------------------------------------------------------ values
class V:
    pass


class VStr(V):
    def __init__(self, e):
        self.e = e

    def __repr__(self):
        return "VStr(%s)" % self.e


class VInt(V):
    """unsigned 64-bit integer (usize/u64/u32 are all modelled at 64 bits)"""

    def __init__(self, e, maxval=None):
        self.e = e if z3.is_expr(e) else bv(e)
        self.maxval = maxval  # optional known upper bound (keeps decimal rendering small)

    def __repr__(self):
        return "VInt(%s)" % self.e


class VBool(V):
    def __init__(self, e):
        self.e = e if z3.is_expr(e) else z3.BoolVal(bool(e))

    def __repr__(self):
        return "VBool(%s)" % self.e


class VChar(V):
    """an ASCII char / byte, as an 8-bit bit-vector"""

    def __init__(self, e):
        self.e = e


class VOpaque(V):
    """a value of an abstract sort (e.g. a hash as a term of an algebraic datatype): only copied and compared"""

    def __init__(self, e):
        self.e = e

    def __repr__(self):
        return "VOpaque(%s)" % self.e


class VUnit(V):
    def __repr__(self):
        return "()"


class VEnum(V):
    """tagged union with all payloads present; Option/Result/user enums"""

    def __init__(self, ty, tag, payload=None):
        self.ty = ty
        self.tag = tag if z3.is_expr(tag) else b8(tag)
        self.payload = payload or {}

    def is_variant(self, name):
        return self.tag == TAG(self.ty, name)

    def __repr__(self):
        return "VEnum(%s,%s,%s)" % (self.ty, self.tag, self.payload)


class VVec(V):
    def __init__(self, items, n=None):
        self.items = list(items)
        self.n = n if n is not None else bv(len(self.items))

    def __repr__(self):
        return "VVec(%s;n=%s)" % (self.items, self.n)


class VTuple(V):
    def __init__(self, items):
        self.items = list(items)


class VStruct(V):
    def __init__(self, name, fields):
        self.name = name
        self.fields = dict(fields)

    def __repr__(self):
        return "VStruct(%s,%s)" % (self.name, self.fields)


class VClosure(V):
    def __init__(self, params, body, env):
        self.params, self.body, self.env = params, body, env


class VIter(V):
    """lazy iterator adaptor over a bounded VVec (split/bytes/chars/iter...)"""

    def __init__(self, vec):
        self.vec = vec


class VUninit(V):
    pass


class VPyFn(V):
    """a callable supplied by the property module (e.g. the progress callback): fn(I, args, pc) -> V"""

    def __init__(self, fn):
        self.fn = fn


class VRefPlace(V):
    """a `&mut` reference to a place (variable / field path), kept as the AST of the place expression:
    reads evaluate the place, mutating method calls assign back to it"""

    def __init__(self, place_ast):
        self.place = place_ast


class Effects:
    """result of a stub/model that also updates its receiver, `&mut` arguments, or arbitrary places"""

    def __init__(self, ret, recv=None, args=None, places=None):
        self.ret, self.recv, self.args, self.places = ret, recv, args or {}, places or []


class VCount(V):
    """an iterator of which only `.count()` is modelled"""

    def __init__(self, n):
        self.n = n


class VRsplitHead(V):
    """`s.rsplit(p)` of which only `.next()` (the last part) is modelled"""

    def __init__(self, last):
        self.last = last


_TAGS = {}


def TAG(ty, name):
    key = (ty, name)
    if key not in _TAGS:
        _TAGS[key] = len([k for k in _TAGS if k[0] == ty])
    return b8(_TAGS[key])


for _n in ("None", "Some"):
    TAG("Option", _n)
for _n in ("Err", "Ok"):
    TAG("Result", _n)


def some(v):
    return VEnum("Option", TAG("Option", "Some"), {"Some": [v]})


def none():
    return VEnum("Option", TAG("Option", "None"), {})


def ok(v):
    return VEnum("Result", TAG("Result", "Ok"), {"Ok": [v]})


def err(v):
    return VEnum("Result", TAG("Result", "Err"), {"Err": [v]})


def opaque_err():
    """an error value the models do not describe further (kept an `Error` enum so that it merges with real ones)"""
    return VEnum("Error", TAG("Error", "__opaque"), {})


def opt(cond, v):
    return VEnum("Option", z3.If(cond, TAG("Option", "Some"), TAG("Option", "None")), {"Some": [v]})


def is_some(o):
    return o.tag == TAG("Option", "Some")


def is_ok(r):
    return r.tag == TAG("Result", "Ok")


def ite(c, a, b):
    """structural if-then-else on values"""
    if a is b:
        return a
    if isinstance(a, VUninit):
        return b
    if isinstance(b, VUninit):
        return a
    if not (z3.is_true(c) or z3.is_false(c)):
        c = z3.simplify(c)
    if z3.is_true(c):
        return a
    if z3.is_false(c):
        return b
    # an empty `Vec::new()` merged with a byte vector: the empty byte string
    if isinstance(a, VVec) and not a.items and isinstance(b, VStr):
        a = VStr(bstr.lit(""))
    if isinstance(b, VVec) and not b.items and isinstance(a, VStr):
        b = VStr(bstr.lit(""))
    if isinstance(a, VStr) and isinstance(b, VStr):
        return VStr(bstr.ite(c, a.e, b.e))
    if isinstance(a, VChar) and isinstance(b, VChar):
        return VChar(z3.If(c, a.e, b.e))
    if isinstance(a, VInt) and isinstance(b, VInt):
        return VInt(z3.If(c, a.e, b.e))
    if isinstance(a, VBool) and isinstance(b, VBool):
        return VBool(z3.If(c, a.e, b.e))
    if isinstance(a, VUnit) and isinstance(b, VUnit):
        return a
    if isinstance(a, VOpaque) and isinstance(b, VOpaque):
        return VOpaque(z3.If(c, a.e, b.e))
    if isinstance(a, VEnum) and isinstance(b, VEnum) and a.ty == b.ty:
        pl = {}
        for k in set(a.payload) | set(b.payload):
            if k in a.payload and k in b.payload:
                try:
                    pl[k] = [ite(c, x, y) for x, y in zip(a.payload[k], b.payload[k])]
                except Unsupported:
                    if k != "Err":
                        raise
                    pl[k] = [VUnit()]  # error values are opaque (never inspected by the properties)
            else:
                pl[k] = a.payload.get(k) or b.payload.get(k)
        return VEnum(a.ty, z3.If(c, a.tag, b.tag), pl)
    if isinstance(a, VTuple) and isinstance(b, VTuple) and len(a.items) == len(b.items):
        return VTuple([ite(c, x, y) for x, y in zip(a.items, b.items)])
    if isinstance(a, VStruct) and isinstance(b, VStruct) and a.name == b.name:
        return VStruct(a.name, {k: ite(c, a.fields[k], b.fields[k]) for k in a.fields})
    if isinstance(a, VVec) and isinstance(b, VVec):
        m = max(len(a.items), len(b.items))
        items = []
        for i in range(m):
            if i < len(a.items) and i < len(b.items):
                items.append(ite(c, a.items[i], b.items[i]))
            else:
                items.append(a.items[i] if i < len(a.items) else b.items[i])
        return VVec(items, z3.If(c, a.n, b.n))
    raise Unsupported("cannot merge values of types %s / %s" % (type(a).__name__, type(b).__name__))


def S(x):
    return bstr.lit(x)


def char_as_str(c):
    return BStr([c.e], bv(1))


def as_bstr(v):
    if isinstance(v, VStr):
        return v.e
    if isinstance(v, VChar):
        return char_as_str(v)
    raise Unsupported("expected a string/char, got %s" % type(v).__name__)


def veq(a, b):
    """== on values -> z3 Bool"""
    if isinstance(a, VStr) and isinstance(b, VStr):
        return bstr.eq(a.e, b.e)
    if isinstance(a, VChar) and isinstance(b, VChar):
        return a.e == b.e
    if isinstance(a, VInt) and isinstance(b, VInt):
        return a.e == b.e
    if isinstance(a, VChar) and isinstance(b, VInt):
        return z3.ZeroExt(56, a.e) == b.e  # u8 compared with an untyped literal
    if isinstance(a, VInt) and isinstance(b, VChar):
        return a.e == z3.ZeroExt(56, b.e)
    if isinstance(a, VBool) and isinstance(b, VBool):
        return a.e == b.e
    if isinstance(a, VUnit) and isinstance(b, VUnit):
        return z3.BoolVal(True)
    if isinstance(a, VOpaque) and isinstance(b, VOpaque):
        return a.e == b.e
    if isinstance(a, VEnum) and isinstance(b, VEnum) and a.ty == b.ty:
        conds = [a.tag == b.tag]
        for k in set(a.payload) & set(b.payload):
            eqs = [veq(x, y) for x, y in zip(a.payload[k], b.payload[k])]
            conds.append(z3.Implies(a.tag == TAG(a.ty, k), z3.And(eqs) if eqs else z3.BoolVal(True)))
        return z3.And(conds)
    if isinstance(a, VTuple) and isinstance(b, VTuple):
        return z3.And([veq(x, y) for x, y in zip(a.items, b.items)])
    if isinstance(a, VStruct) and isinstance(b, VStruct):
        return z3.And([veq(a.fields[k], b.fields[k]) for k in a.fields])
    raise Unsupported("== on %s / %s" % (type(a).__name__, type(b).__name__))


class Frame:
    def __init__(self, name):
        self.name = name
        self.rets = []  # (guard, value)


class Interp:
    def __init__(self, dump, split_bound=6, len_bound=24, lits=None):
        self.fns = dump["fns"]
        self.consts_ast = dump["consts"]
        self.consts = dict(lits or {})
        self.K = split_bound
        self.N = len_bound
        self.recursion_bound = 6
        self.feasible = None  # optional exact reachability oracle used to prune recursive calls
        self.panics = []  # (guard, message)
        self.unwinds = []  # (guard, message)
        self.side = []  # side constraints defining fresh symbols (always asserted)
        self.frames = []
        self.fresh_n = 0
        self.models_used = set()
        self.overrides = {}  # function name -> python model(I, args, pc) (stubs, listed in evidence)
        self.parse_models = {}  # type name -> model(I, VStr, pc) for str::parse::<T>()
        self.events = []  # (guard, tag, payload) recorded by stubs (e.g. "request reached the transport")
        self.self_ty = []
        self.loops = []
        self.loop_bound = 16
        self.buffer_cap = 8
        self.cfg_values = {}
        self.keep_refs = False
        self.current_call = None
        self.current_env = None
        self.last_self = None
        self.last_mut = {}
        self.mut_params = []
        self.fns_executed = set()
        self.depth = 0

    # ------------------------------------------------------------------ helpers
    def fresh(self, sort, hint="t"):
        self.fresh_n += 1
        name = "%s!%d" % (hint, self.fresh_n)
        if sort == "str":
            st, cons = bstr.sym(name, self.N)
            self.side.extend(cons)
            return st
        if sort == "int":
            return z3.BitVec(name, bstr.W)
        if sort == "bool":
            return z3.Bool(name)
        raise Unsupported(sort)

    def panic(self, guard, msg):
        g = z3.simplify(guard)
        if z3.is_false(g):
            return
        self.panics.append((g, msg))

    def unwind(self, guard, msg):
        g = z3.simplify(guard)
        if z3.is_false(g):
            return
        self.unwinds.append((g, msg))

    def ob(self, pc):
        """callback handed to bstr operations for their capacity (unwinding) obligations"""
        return lambda cond, msg: self.unwind(z3.And(pc, cond), msg)

    def const(self, name):
        if name in self.consts:
            return self.consts[name]
        if name in self.consts_ast:
            v, _, _ = self.eval(self.consts_ast[name]["expr"], {}, z3.BoolVal(True))
            ty = self.consts_ast[name].get("ty", "").replace(" ", "")
            if ty.startswith("[u8;") and isinstance(v, VVec):
                # byte-array constant written as a list of integers
                v = VStr(BStr([z3.Extract(7, 0, x.e) for x in v.items], bv(len(v.items))))
            self.consts[name] = v
            return v
        return None

    # ------------------------------------------------------------------ calling
    def call(self, fname, args, pc=None):
        pc = z3.BoolVal(True) if pc is None else pc
        if fname not in self.fns:
            raise Unsupported("function %s not in dump" % fname)
        self.fns_executed.add(fname)
        f = self.fns[fname]
        params = f["sig"]["params"]
        own = fname
        if own.startswith("<"):
            own = own[1:].split(" as ")[0]
        elif "::" in own:
            own = own.rsplit("::", 1)[0]
        else:
            own = None
        if len(params) != len(args):
            raise Unsupported("arity mismatch calling %s" % fname)
        active = sum(1 for fr in self.frames if fr.name == fname)
        if active:
            # recursion: an unreachable recursive call is not executed; a reachable one deeper than the bound is an
            # unwinding obligation (like a loop bound), never a silent cut
            if z3.is_false(z3.simplify(pc)) or (self.feasible is not None and not self.feasible(pc)):
                return VUninit()
            if active >= self.recursion_bound:
                self.unwind(pc, "recursion of %s deeper than %d" % (fname, self.recursion_bound))
                return VUninit()
        env = {}
        for p, a in zip(params, args):
            if p["name"] == "self":
                env["self"] = a
            else:
                c, binds = self.match_pat(p["pat"], a)
                env.update(binds)
        self.self_ty.append(own)
        self.mut_params.append([p["pat"]["name"] for p in params
                                if p["name"] != "self" and p.get("pat", {}).get("k") == "ident" and p.get("ty", "").replace(" ", "").startswith("&mut")])
        try:
            return self.run_body(fname, f["body"], env, pc)
        finally:
            self.self_ty.pop()
            self.mut_params.pop()

    def snap(self, env):
        """values, at a return point, of `self` and of the current function's `&mut` parameters"""
        out = {"self": env.get("self")}
        for n in (self.mut_params[-1] if self.mut_params else ()):
            out[n] = env.get(n)
        return out

    def write_back_mut_args(self, fname, arg_asts, env, pc):
        """after a call of a user function: `&mut` arguments that are places receive the callee's final value"""
        lm, self.last_mut = self.last_mut, {}
        f = self.fns.get(fname)
        if not f or not lm:
            return env, pc
        params = [p for p in f["sig"]["params"] if p["name"] != "self"]
        for p, a in zip(params, arg_asts):
            n = p.get("pat", {}).get("name") if p.get("pat", {}).get("k") == "ident" else None
            if n is None or n not in lm:
                continue
            place = strip_ref(a)
            if place["k"] not in ("path", "field", "index"):
                continue
            if place["k"] == "path" and place["path"] not in env:
                continue
            try:
                cur, _, _ = self.eval(place, env, pc)
            except Unsupported:
                continue
            nv = lm[n]
            if type(cur) is not type(nv) or (isinstance(cur, VStruct) and cur.name != nv.name):
                continue  # the parameter name was rebound to something else inside the callee
            _, env, pc = self.assign_to(place, nv, env, pc)
        return env, pc

    def run_body(self, name, body, env, pc):
        self.depth += 1
        if self.depth > 40:
            raise Unsupported("call depth")
        fr = Frame(name)
        self.frames.append(fr)
        try:
            if body.get("k") == "block":
                v, envf, pout = self.exec_block(body, env, pc, {})
            else:
                v, envf, pout = self.eval(body, env, pc)
        finally:
            self.frames.pop()
            self.depth -= 1
        rets = list(fr.rets)
        if not z3.is_false(z3.simplify(pout)):
            rets.append((pout, v, self.snap(envf)))
        if not rets:
            raise Unsupported("function %s never returns" % name)
        res = rets[-1][1]
        outs = dict(rets[-1][2])  # final values of `self` and of the `&mut` parameters at the last return point
        for g, val, snap in reversed(rets[:-1]):
            res = ite(g, val, res)
            for k in list(outs):
                if snap.get(k) is not None and outs[k] is not None:
                    outs[k] = ite(g, snap[k], outs[k])
        self_out = outs.get("self")
        self.last_self = self.name_value(self_out) if self_out is not None else None
        self.last_mut = {k: self.name_value(v) for k, v in outs.items() if k != "self" and v is not None and not isinstance(v, (VRefPlace, VUninit))}
        return self.name_value(res)

    def name_value(self, v):
        """introduce definitions (fresh variables == terms) for the strings inside a value"""
        if isinstance(v, VStr):
            return VStr(bstr.named(v.e, self.side))
        if isinstance(v, VInt):
            x = z3.simplify(v.e)
            if z3.is_bv_value(x) or (z3.is_const(x) and x.decl().kind() == z3.Z3_OP_UNINTERPRETED):
                return VInt(x, getattr(v, "maxval", None))
            self.fresh_n += 1
            nv = z3.BitVec("int!%d" % self.fresh_n, bstr.W)
            self.side.append(nv == x)
            return VInt(nv, getattr(v, "maxval", None))
        if isinstance(v, VBool):
            x = z3.simplify(v.e)
            if z3.is_true(x) or z3.is_false(x) or (z3.is_const(x) and x.decl().kind() == z3.Z3_OP_UNINTERPRETED):
                return VBool(x)
            self.fresh_n += 1
            nb = z3.Bool("bool!%d" % self.fresh_n)
            self.side.append(nb == x)
            return VBool(nb)
        if isinstance(v, VEnum):
            return VEnum(v.ty, v.tag, {k: [self.name_value(x) for x in pl] for k, pl in v.payload.items()})
        if isinstance(v, VTuple):
            return VTuple([self.name_value(x) for x in v.items])
        if isinstance(v, VStruct):
            return VStruct(v.name, {k: self.name_value(x) for k, x in v.fields.items()})
        if isinstance(v, VVec):
            return VVec([self.name_value(x) for x in v.items], v.n)
        return v

    # ------------------------------------------------------------------ patterns
    def match_pat(self, p, v):
        """-> (z3 Bool condition, bindings dict)"""
        k = p["k"]
        T = z3.BoolVal(True)
        if k == "ident":
            if p.get("sub"):
                c, b = self.match_pat(p["sub"], v)
                b[p["name"]] = v
                return c, b
            # an identifier pattern that names a unit variant / const? (None is parsed as ident)
            if p["name"] == "None":
                if not isinstance(v, VEnum):
                    raise Unsupported("None pattern on non-enum")
                return v.tag == TAG("Option", "None"), {}
            return T, {p["name"]: v}
        if k == "wild" or k == "rest":
            return T, {}
        if k == "typed":
            return self.match_pat(p["pat"], v)
        if k == "ref":
            return self.match_pat(p["pat"], v)
        if k == "tuple":
            if isinstance(v, VUninit) or (isinstance(v, VUnit) and p["elems"]):
                # value of an unreachable path (every branch that produced it has returned): names stay uninitialised
                return T, {n: VUninit() for n in pat_names(p)}
            if not isinstance(v, VTuple) or len(v.items) != len(p["elems"]):
                raise Unsupported("tuple pattern mismatch")
            conds, binds = [], {}
            for sp, sv in zip(p["elems"], v.items):
                c, b = self.match_pat(sp, sv)
                conds.append(c)
                binds.update(b)
            return z3.And(conds) if conds else T, binds
        if k == "tuple_struct":
            path = p["path"]
            vn = path.split("::")[-1]
            if not isinstance(v, VEnum):
                raise Unsupported("tuple-struct pattern %s on %s" % (path, type(v).__name__))
            cond = v.tag == TAG(v.ty, vn)
            pl = v.payload.get(vn)
            binds = {}
            conds = [cond]
            if pl is None:
                # statically impossible variant (payload never constructed)
                for sp in p["elems"]:
                    if sp["k"] not in ("wild", "rest"):
                        for nm in pat_names(sp):
                            binds[nm] = VUninit()
                return z3.And(cond, z3.BoolVal(False)) if False else cond, binds
            if len(pl) != len(p["elems"]):
                raise Unsupported("payload arity for %s" % path)
            for sp, sv in zip(p["elems"], pl):
                c, b = self.match_pat(sp, sv)
                conds.append(c)
                binds.update(b)
            return z3.And(conds), binds
        if k == "path":
            vn = p["path"].split("::")[-1]
            if isinstance(v, VEnum):
                return v.tag == TAG(v.ty, vn), {}
            c = self.const(vn)
            if c is not None:
                return veq(c, v), {}
            raise Unsupported("path pattern %s" % p["path"])
        if k == "lit":
            lv, _, _ = self.eval(p["expr"], {}, T)
            return veq(lv, v), {}
        if k == "or":
            conds = []
            for sp in p["cases"]:
                c, b = self.match_pat(sp, v)
                if b:
                    raise Unsupported("bindings in or-pattern")
                conds.append(c)
            return z3.Or(conds), {}
        if k == "struct":
            if not isinstance(v, VStruct):
                raise Unsupported("struct pattern on %s" % type(v).__name__)
            conds, binds = [], {}
            for f in p["fields"]:
                c, b = self.match_pat(f["pat"], v.fields[f["member"]])
                conds.append(c)
                binds.update(b)
            return z3.And(conds) if conds else T, binds
        raise Unsupported("pattern kind %s" % k)

    # ------------------------------------------------------------------ statements
    def exec_block(self, blk, env, pc, saved=None):
        """`saved` (if given) collects outer variables shadowed by a `let` of this block: name -> value
        the outer variable had when it was shadowed (restored by e_block when the block ends)."""
        outer = set(env)
        env = dict(env)
        val = VUnit()
        stmts = blk["stmts"]
        for i, st in enumerate(stmts):
            if z3.is_false(z3.simplify(pc)):
                break
            k = st["k"]
            if k == "let":
                if saved is not None:
                    for nm in pat_names(st["pat"]):
                        if nm in outer and nm not in saved:
                            saved[nm] = env[nm]
                if st["init"] is None:
                    for nm in pat_names(st["pat"]):
                        env[nm] = VUninit()
                    continue
                v, env, pc = self.eval(st["init"], env, pc)
                c, binds = self.match_pat(st["pat"], v)
                if st.get("else") is not None:
                    # let-else: the else block must diverge
                    _, _, pelse = self.eval(st["else"], env, z3.And(pc, z3.Not(c)))
                    if not z3.is_false(z3.simplify(pelse)):
                        raise Unsupported("let-else whose else block falls through")
                    pc = z3.And(pc, c)
                elif not z3.is_true(z3.simplify(c)):
                    raise Unsupported("refutable pattern in let")
                env.update(binds)
                val = VUnit()
            elif k == "expr":
                v, env, pc = self.eval(st["expr"], env, pc)
                val = VUnit() if st["semi"] else v
                if st["semi"] is False and i != len(stmts) - 1:
                    val = VUnit()
            elif k == "item":
                continue
            else:
                raise Unsupported("stmt " + k)
        return val, env, pc

    # ------------------------------------------------------------------ expressions
    def eval(self, e, env, pc):
        k = e["k"]
        m = getattr(self, "e_" + k, None)
        if m is None:
            raise Unsupported("expression kind %s: %s" % (k, str(e.get("text", ""))[:80]))
        return m(e, env, pc)

    def e_block(self, e, env, pc):
        saved = {}
        v, env2, pc2 = self.exec_block(e, env, pc, saved)
        # variables declared inside the block go out of scope; outer ones keep their (possibly updated)
        # values, and outer variables that were shadowed inside the block get their own value back
        out = {n: saved.get(n, env2[n]) for n in env if n in env2}
        return v, out, pc2

    def e_lit(self, e, env, pc):
        t = e["ty"]
        if t == "str":
            return VStr(S(e["value"])), env, pc
        if t == "char":
            if ord(e["value"]) > 127:
                raise Unsupported("non-ASCII char literal")
            return VChar(b8(ord(e["value"]))), env, pc
        if t == "u8":
            return VChar(b8(e["value"])), env, pc
        if t == "int":
            if e.get("suffix") == "u8":
                return VChar(b8(int(e["value"]))), env, pc
            return VInt(int(e["value"])), env, pc
        if t == "bool":
            return VBool(e["value"]), env, pc
        if t == "bytes":
            return VStr(bstr.lit(bytes(e["value"]))), env, pc
        raise Unsupported("literal " + t)

    def e_path(self, e, env, pc):
        p = e["path"]
        if p in env:
            v = env[p]
            if isinstance(v, VUninit):
                raise Unsupported("use of uninitialised variable " + p)
            if isinstance(v, VRefPlace) and not self.keep_refs:
                return self.eval(v.place, env, pc)
            return v, env, pc
        if p == "None":
            return none(), env, pc
        last = p.split("::")[-1]
        c = self.const(last)
        if c is not None:
            return c, env, pc
        if "::" in p:
            # unit enum variant, e.g. Component::CurDir
            ty = p.split("::")[-2]
            return VEnum(ty, TAG(ty, last), {}), env, pc
        raise Unsupported("unknown name " + p)

    def e_ref(self, e, env, pc):
        return self.eval(e["expr"], env, pc)

    def e_unary(self, e, env, pc):
        v, env, pc = self.eval(e["expr"], env, pc)
        op = e["op"]
        if op == "!":
            if isinstance(v, VBool):
                return VBool(z3.Not(v.e)), env, pc
        if op == "*":
            return v, env, pc
        if op == "-" and isinstance(v, VInt):
            # signed negation of a 64-bit value (two's complement); i64::MIN cannot be negated
            self.panic(z3.And(pc, v.e == bv(1 << 63)), "attempt to negate with overflow at line %s" % e.get("line"))
            return VInt(bv(0) - v.e), env, pc
        raise Unsupported("unary " + op)

    def e_binary(self, e, env, pc):
        op = e["op"]
        if op in ("&&", "||"):
            l, env, pc = self.eval(e["l"], env, pc)
            if not isinstance(l, VBool):
                raise Unsupported("&& on non-bool")
            # short circuit: the right side executes only under l (for &&) or !l (for ||); it may contain `?`/`return`
            # and assignments, so it is merged like the branch of an `if`
            take_right = l.e if op == "&&" else z3.Not(l.e)
            sub_pc = z3.And(pc, take_right)
            if z3.is_false(z3.simplify(sub_pc)):
                return VBool(z3.BoolVal(op == "||") if False else (z3.BoolVal(False) if op == "&&" else z3.BoolVal(True))), env, pc
            r, env2, pc2 = self.eval(e["r"], env, sub_pc)
            if not isinstance(r, VBool):
                raise Unsupported("&& on non-bool")
            skip_val = VBool(z3.BoolVal(False) if op == "&&" else z3.BoolVal(True))
            v, out, pco = self.merge(z3.simplify(take_right), r, env2, pc2, skip_val, env, z3.And(pc, z3.Not(take_right)), env)
            return v, out, pco
        if op in ("+=", "-=", "*=", "/=", "%=", "|=", "&=", "^=", "<<=", ">>="):
            sub = dict(e)
            sub["op"] = op[:-1]
            v, env, pc = self.e_binary(sub, env, pc)
            return self.assign_to(e["l"], v, env, pc)
        l, env, pc = self.eval(e["l"], env, pc)
        r, env, pc = self.eval(e["r"], env, pc)
        if op == "==":
            return VBool(veq(l, r)), env, pc
        if op == "!=":
            return VBool(z3.Not(veq(l, r))), env, pc
        if isinstance(l, VInt) and isinstance(r, VInt):
            if op == "<":
                return VBool(ult(l.e, r.e)), env, pc
            if op == "<=":
                return VBool(ule(l.e, r.e)), env, pc
            if op == ">":
                return VBool(ugt(l.e, r.e)), env, pc
            if op == ">=":
                return VBool(uge(l.e, r.e)), env, pc
            if op == "+":
                self.panic(z3.And(pc, z3.Not(z3.BVAddNoOverflow(l.e, r.e, False))), "attempt to add with overflow at line %s" % e.get("line"))
                return VInt(l.e + r.e), env, pc
            if op == "-":
                self.panic(z3.And(pc, ult(l.e, r.e)), "attempt to subtract with overflow (usize) at line %s" % e.get("line"))
                return VInt(l.e - r.e), env, pc
            if op == "*":
                self.panic(z3.And(pc, z3.Not(z3.BVMulNoOverflow(l.e, r.e, False))), "attempt to multiply with overflow at line %s" % e.get("line"))
                return VInt(l.e * r.e), env, pc
            if op in ("/", "%"):
                self.panic(z3.And(pc, r.e == bv(0)), "division by zero at line %s" % e.get("line"))
                return VInt(z3.UDiv(l.e, r.e) if op == "/" else z3.URem(l.e, r.e)), env, pc
            if op == "&":
                return VInt(l.e & r.e), env, pc
            if op == "|":
                return VInt(l.e | r.e), env, pc
            if op == "^":
                return VInt(l.e ^ r.e), env, pc
            if op == "<<":
                return VInt(l.e << r.e), env, pc
            if op == ">>":
                return VInt(z3.LShR(l.e, r.e)), env, pc
        if isinstance(l, VBool) and isinstance(r, VBool) and op in ("&", "|", "^"):
            return VBool({"&": z3.And, "|": z3.Or, "^": z3.Xor}[op](l.e, r.e)), env, pc
        if isinstance(l, VInt) and isinstance(r, VInt):
            pass
        if isinstance(l, VChar) and isinstance(r, VChar) and op in ("<", "<=", ">", ">="):
            a, b = l.e, r.e
            return VBool({"<": ult(a, b), "<=": ule(a, b), ">": ugt(a, b), ">=": uge(a, b)}[op]), env, pc
        # u8 arithmetic/bit operations with an untyped integer literal on one side (`togs[0] & 0x03 == 0x03`)
        if op in ("&", "|", "^") and ((isinstance(l, VChar) and isinstance(r, (VInt, VChar))) or (isinstance(r, VChar) and isinstance(l, VInt))):
            def as8(x):
                if isinstance(x, VChar):
                    return x.e
                c = cval(x.e)
                if c is None or c > 255:
                    raise Unsupported("u8 operation with a non-literal wide operand")
                return b8(c)
            a, b = as8(l), as8(r)
            return VChar({"&": a & b, "|": a | b, "^": a ^ b}[op]), env, pc
        if op in ("==", "!=") and ((isinstance(l, VChar) and isinstance(r, VInt)) or (isinstance(l, VInt) and isinstance(r, VChar))):
            ch, iv = (l, r) if isinstance(l, VChar) else (r, l)
            eq = z3.ZeroExt(56, ch.e) == iv.e
            return VBool(eq if op == "==" else z3.Not(eq)), env, pc
        raise Unsupported("binary %s on %s/%s" % (op, type(l).__name__, type(r).__name__))

    def e_tuple(self, e, env, pc):
        items = []
        for x in e["elems"]:
            v, env, pc = self.eval(x, env, pc)
            items.append(v)
        if not items:
            return VUnit(), env, pc
        return VTuple(items), env, pc

    def e_field(self, e, env, pc):
        b, env, pc = self.eval(e["base"], env, pc)
        m = e["member"]
        if isinstance(b, VStruct):
            if m not in b.fields:
                raise Unsupported("no field " + m)
            return b.fields[m], env, pc
        if isinstance(b, VTuple) and m.isdigit():
            return b.items[int(m)], env, pc
        raise Unsupported("field access on " + type(b).__name__)

    def e_struct(self, e, env, pc):
        fields = {}
        for f in e["fields"]:
            v, env, pc = self.eval(f["expr"], env, pc)
            fields[f["member"]] = v
        if e.get("rest") is not None:
            raise Unsupported("struct update syntax")
        nm = e["path"].split("::")[-1]
        if nm == "Self" and self.self_ty and self.self_ty[-1]:
            nm = self.self_ty[-1]
        return VStruct(nm, fields), env, pc

    def e_if(self, e, env, pc):
        cond = e["cond"]
        binds = {}
        if cond["k"] == "let_cond":
            sv, env, pc = self.eval(cond["expr"], env, pc)
            c, binds = self.match_pat(cond["pat"], sv)
        else:
            cv, env, pc = self.eval(cond, env, pc)
            if not isinstance(cv, VBool):
                raise Unsupported("if on non-bool")
            c = cv.e
        c = z3.simplify(c)
        envt = dict(env)
        envt.update(binds)
        if z3.is_false(c):
            vt, envt2, pct = VUnit(), env, z3.BoolVal(False)
        else:
            vt, envt2, pct = self.eval(e["then"], envt, z3.And(pc, c))
            if binds:
                envt2 = dict(envt2)
                for nm in binds:
                    if nm in env:
                        envt2[nm] = env[nm]  # the pattern binding shadowed an outer variable
                    else:
                        envt2.pop(nm, None)
        if e["else"] is not None and not z3.is_true(c):
            vf, envf, pcf = self.eval(e["else"], env, z3.And(pc, z3.Not(c)))
        else:
            vf, envf, pcf = VUnit(), env, z3.And(pc, z3.Not(c))
        return self.merge(c, vt, envt2, pct, vf, envf, pcf, env)

    def merge(self, c, vt, envt, pct, vf, envf, pcf, env0):
        deadt = z3.is_false(z3.simplify(pct))
        deadf = z3.is_false(z3.simplify(pcf))
        out = {}
        for n in env0:
            a, b = envt.get(n, env0[n]), envf.get(n, env0[n])
            if deadt:
                out[n] = b
            elif deadf:
                out[n] = a
            else:
                out[n] = ite(c, a, b)
        if deadt:
            v = vf
        elif deadf:
            v = vt
        else:
            try:
                v = ite(c, vt, vf)
            except Unsupported:
                if isinstance(vt, VUnit) or isinstance(vf, VUnit):
                    v = VUnit()
                else:
                    raise
        return v, out, z3.simplify(z3.Or(pct, pcf))

    def e_match(self, e, env, pc):
        sv, env, pc = self.eval(e["scrut"], env, pc)
        arms = []
        remaining = z3.BoolVal(True)
        for a in e["arms"]:
            c, binds = self.match_pat(a["pat"], sv)
            enva = dict(env)
            enva.update(binds)
            if z3.is_false(z3.simplify(z3.And(remaining, c))):
                continue
            if a["guard"] is not None:
                gv, _, _ = self.eval(a["guard"], enva, z3.And(pc, remaining, c))
                c = z3.And(c, gv.e)
            sel = z3.simplify(z3.And(remaining, c))
            remaining = z3.simplify(z3.And(remaining, z3.Not(c)))
            if z3.is_false(sel):
                continue
            v, enva2, pca = self.eval(a["body"], enva, z3.And(pc, sel))
            if binds:
                enva2 = dict(enva2)
                for nm in binds:
                    if nm in env:
                        enva2[nm] = env[nm]
                    else:
                        enva2.pop(nm, None)
            arms.append((sel, v, enva2, pca))
        if not arms:
            raise Unsupported("match without feasible arm")
        # non-exhaustive residue cannot exist in compiled Rust; fold from the last arm
        sel, v, envr, pcr = arms[-1]
        for sel_i, v_i, env_i, pc_i in reversed(arms[:-1]):
            v, envr, pcr = self.merge(sel_i, v_i, env_i, pc_i, v, envr, pcr, env)
        out = {n: envr.get(n, env[n]) for n in env}
        return v, out, pcr

    def e_return(self, e, env, pc):
        if e["expr"] is not None:
            v, env, pc = self.eval(e["expr"], env, pc)
        else:
            v = VUnit()
        self.frames[-1].rets.append((pc, v, self.snap(env)))
        return VUnit(), env, z3.BoolVal(False)

    def e_try(self, e, env, pc):
        v, env, pc = self.eval(e["expr"], env, pc)
        if isinstance(v, VUninit):
            # the value of a call that was not executed: unreachable, or cut by the recursion bound (the unwinding obligation
            # recorded there makes the run inconclusive if that path is reachable); nothing continues from here
            return VUninit(), env, z3.BoolVal(False)
        if not isinstance(v, VEnum) or v.ty not in ("Option", "Result"):
            raise Unsupported("? on " + type(v).__name__)
        if v.ty == "Option":
            good = is_some(v)
            self.frames[-1].rets.append((z3.And(pc, z3.Not(good)), none(), self.snap(env)))
            pl = v.payload.get("Some")
        else:
            good = is_ok(v)
            ev = v.payload.get("Err", [VUnit()])[0]
            self.frames[-1].rets.append((z3.And(pc, z3.Not(good)), err(ev), self.snap(env)))
            pl = v.payload.get("Ok")
        if pl is None:
            return VUninit(), env, z3.BoolVal(False)
        return pl[0], env, z3.simplify(z3.And(pc, good))

    def e_assign(self, e, env, pc):
        v, env, pc = self.eval(e["r"], env, pc)
        return self.assign_to(e["l"], v, env, pc)

    def assign_to(self, l, v, env, pc):
        """assignment to a variable, a field of a variable, or an element of a vector variable"""
        if l["k"] == "path" and l["path"] in env:
            if isinstance(env[l["path"]], VRefPlace) and not isinstance(v, VRefPlace):
                return self.assign_to(env[l["path"]].place, v, env, pc)
            env = dict(env)
            env[l["path"]] = v
            return VUnit(), env, pc
        if l["k"] == "field":
            base, env, pc = self.eval(l["base"], env, pc)
            if isinstance(base, VTuple) and l["member"].isdigit():
                items = list(base.items)
                items[int(l["member"])] = v
                return self.assign_to(l["base"], VTuple(items), env, pc)
            if not isinstance(base, VStruct):
                raise Unsupported("field assignment on " + type(base).__name__)
            nb = VStruct(base.name, dict(base.fields))
            nb.fields[l["member"]] = v
            return self.assign_to(l["base"], nb, env, pc)
        if l["k"] == "index" and l["index"]["k"] == "range":
            # `buf[lo..hi] = bytes` (as produced by a model that fills a `&mut buf[lo..hi]` argument)
            base, env, pc = self.eval(l["base"], env, pc)
            ix = l["index"]
            if not isinstance(base, VStr) or not isinstance(v, VStr) or ix["inclusive"]:
                raise Unsupported("slice assignment form")
            lo = hi = None
            if ix["lo"] is not None:
                lo, env, pc = self.eval(ix["lo"], env, pc)
            if ix["hi"] is not None:
                hi, env, pc = self.eval(ix["hi"], env, pc)
            n = base.e.n
            loe = lo.e if lo is not None else bv(0)
            hie = hi.e if hi is not None else n
            self.panic(z3.And(pc, z3.Or(ugt(loe, hie), ugt(hie, n))), "slice out of range at line %s" % l.get("line"))
            self.panic(z3.And(pc, v.e.n != hie - loe), "slice assignment length mismatch at line %s" % l.get("line"))
            new = bstr.concat(bstr.concat(bstr.substr(base.e, bv(0), loe), v.e, self.ob(pc)), bstr.substr(base.e, hie, n - hie), self.ob(pc))
            return self.assign_to(l["base"], VStr(bstr.named(BStr(new.b, n), self.side, "spl")), env, pc)
        if l["k"] == "index":
            base, env, pc = self.eval(l["base"], env, pc)
            iv, env, pc = self.eval(l["index"], env, pc)
            if not isinstance(base, VVec) or not isinstance(iv, VInt):
                raise Unsupported("index assignment form")
            self.panic(z3.And(pc, z3.Not(ult(iv.e, base.n))), "index out of bounds at line %s" % l.get("line"))
            items = [ite(iv.e == bv(i), v, x) for i, x in enumerate(base.items)]
            return self.assign_to(l["base"], VVec(items, base.n), env, pc)
        if l["k"] == "unary" and l["op"] == "*":
            return self.assign_to(l["expr"], v, env, pc)
        raise Unsupported("assignment target")

    def e_closure(self, e, env, pc):
        return VClosure(e["params"], e["body"], dict(env)), env, pc

    def e_cast(self, e, env, pc):
        v, env, pc = self.eval(e["expr"], env, pc)
        ty = e["ty"].replace(" ", "")
        if isinstance(v, VInt) and ty in ("usize", "u64", "i64", "isize"):
            return v, env, pc  # same 64 bits (signed values are two's complement)
        if isinstance(v, VChar) and ty in ("u8", "char"):
            return v, env, pc
        if isinstance(v, VChar) and ty in ("usize", "u64", "u32"):
            return VInt(z3.ZeroExt(56, v.e)), env, pc
        if isinstance(v, VInt) and ty == "u32":
            return VInt(z3.ZeroExt(32, z3.Extract(31, 0, v.e))), env, pc
        raise Unsupported("cast to " + ty)

    def e_index(self, e, env, pc):
        b, env, pc = self.eval(e["base"], env, pc)
        ix = e["index"]
        if ix["k"] == "range":
            lo = hi = None
            if ix["lo"] is not None:
                lo, env, pc = self.eval(ix["lo"], env, pc)
            if ix["hi"] is not None:
                hi, env, pc = self.eval(ix["hi"], env, pc)
            if ix["inclusive"]:
                raise Unsupported("inclusive range index")
            if isinstance(b, VStr):
                n = b.e.n
                loe = lo.e if lo is not None else bv(0)
                hie = hi.e if hi is not None else n
                self.panic(z3.And(pc, z3.Or(ugt(loe, hie), ugt(hie, n))), "str slice out of range at line %s" % e.get("line"))
                return VStr(bstr.substr(b.e, loe, hie - loe)), env, pc
            if isinstance(b, VVec):
                if hi is not None or lo is None or cval(lo.e) is None:
                    raise Unsupported("vec slice form")
                k0 = cval(lo.e)
                self.panic(z3.And(pc, ult(b.n, bv(k0))), "slice start out of range at line %s" % e.get("line"))
                return VVec(b.items[k0:], b.n - bv(k0)), env, pc
            raise Unsupported("range index on " + type(b).__name__)
        iv, env, pc = self.eval(ix, env, pc)
        if isinstance(b, VVec) and isinstance(iv, VInt):
            self.panic(z3.And(pc, z3.Not(ult(iv.e, b.n))), "index out of bounds at line %s" % e.get("line"))
            return self.vec_get(b, iv.e), env, pc
        if isinstance(b, VStr) and isinstance(iv, VInt):
            # as_bytes()[i]
            self.panic(z3.And(pc, z3.Not(ult(iv.e, b.e.n))), "byte index out of bounds at line %s" % e.get("line"))
            return VChar(bstr.at(b.e, iv.e)), env, pc
        raise Unsupported("index on " + type(b).__name__)

    def vec_get(self, vec, idx):
        if cval(idx) is not None:
            i = cval(idx)
            if i >= len(vec.items):
                # beyond the modelled capacity: only reachable if the bound is too small (unwinding
                # obligation recorded where the vec was built) or the index panics (recorded by caller)
                return vec.items[-1] if vec.items else VUninit()
            return vec.items[i]
        if not vec.items:
            return VUninit()
        res = vec.items[-1]
        for i in range(len(vec.items) - 2, -1, -1):
            res = ite(idx == bv(i), vec.items[i], res)
        return res

    def e_macro(self, e, env, pc):
        name = e["name"]
        if name == "format":
            return self.do_format(e, env, pc)
        if name in ("vec",):
            items = []
            for a in e["args"] or []:
                v, env, pc = self.eval(a, env, pc)
                items.append(v)
            return VVec(items), env, pc
        if name.split("::")[-1] in ("info", "debug", "warn", "error", "trace") and (name.startswith("log::") or "::" not in name):
            return VUnit(), env, pc  # logging has no effect on the result
        if name in ("panic", "unreachable", "unimplemented", "todo"):
            self.panic(pc, "%s! at line %s" % (name, e.get("line")))
            return VUninit(), env, z3.BoolVal(False)
        if name in ("debug_assert", "assert"):
            v, env, pc = self.eval(e["args"][0], env, pc)
            self.panic(z3.And(pc, z3.Not(v.e)), "%s! failed at line %s" % (name, e.get("line")))
            return VUnit(), env, pc
        if name == "write" and e["args"] and len(e["args"]) >= 2:
            # write!(f, "fmt", args..) inside Display::fmt: the interpreter's convention is that the
            # formatter `f` accumulates into env["__fmt_out"].
            sub = dict(e)
            sub["args"] = e["args"][1:]
            v, env, pc = self.do_format(sub, env, pc)
            env = dict(env)
            prev = env.get("__fmt_out", VStr(S("")))
            env["__fmt_out"] = VStr(bstr.concat(prev.e, v.e, self.ob(pc)))
            return ok(VUnit()), env, pc
        raise Unsupported("macro %s!" % name)

    def do_format(self, e, env, pc):
        args = e["args"]
        if not args or args[0]["k"] != "lit" or args[0]["ty"] != "str":
            raise Unsupported("format! without literal format string")
        fmt = args[0]["value"]
        rest = list(args[1:])
        vals = []
        named = {}
        for a in rest:
            if a["k"] == "assign":
                v, env, pc = self.eval(a["r"], env, pc)
                named[a["l"]["path"]] = v
            else:
                v, env, pc = self.eval(a, env, pc)
                vals.append(v)
        parts = []
        i = 0
        argi = 0
        buf = ""
        while i < len(fmt):
            ch = fmt[i]
            if ch == "{":
                if i + 1 < len(fmt) and fmt[i + 1] == "{":
                    buf += "{"
                    i += 2
                    continue
                j = fmt.index("}", i)
                spec = fmt[i + 1:j]
                if buf:
                    parts.append(S(buf))
                    buf = ""
                if ":" in spec:
                    nm, f2 = spec.split(":", 1)
                else:
                    nm, f2 = spec, ""
                if nm == "":
                    v = vals[argi]
                    argi += 1
                elif nm.isdigit():
                    v = vals[int(nm)]
                elif nm in named:
                    v = named[nm]
                else:
                    v, env, pc = self.e_path({"path": nm}, env, pc)
                if f2 not in ("",):
                    # Debug / width / etc: value not modelled -> opaque string
                    parts.append(self.fresh("str", "fmtopaque"))
                else:
                    parts.append(self.display(v))
                i = j + 1
                continue
            if ch == "}":
                if i + 1 < len(fmt) and fmt[i + 1] == "}":
                    buf += "}"
                    i += 2
                    continue
            buf += ch
            i += 1
        if buf:
            parts.append(S(buf))
        if not parts:
            return VStr(S("")), env, pc
        if len(parts) == 1:
            return VStr(parts[0]), env, pc
        return VStr(bstr.concat_many(parts, self.ob(pc))), env, pc

    def display(self, v):
        if isinstance(v, (VStr, VChar)):
            return as_bstr(v)
        if isinstance(v, VInt):
            self.models_used.add("Display for unsigned integers (fresh decimal digits constrained by sum d_i*10^i == v)")
            return bstr.int_to_str(v.e, self.side, getattr(v, "maxval", None))
        if isinstance(v, VStruct) and ("<%s as Display>::fmt" % v.name) in self.fns:
            return self.display_struct(v).e
        # anything else (errors, Debug output) is opaque
        return self.fresh("str", "display")

    def display_struct(self, v):
        fname = "<%s as Display>::fmt" % v.name
        self.fns_executed.add(fname)
        f = self.fns[fname]
        env = {"self": v, "f": VUnit(), "__fmt_out": VStr(S(""))}
        self.depth += 1
        fr = Frame(fname)
        self.frames.append(fr)
        try:
            val, env2, pout = self.eval_keep_env(f["body"], env, z3.BoolVal(True))
        finally:
            self.frames.pop()
            self.depth -= 1
        if fr.rets:
            raise Unsupported("early return inside Display::fmt")
        return env2["__fmt_out"]

    def eval_keep_env(self, body, env, pc):
        return self.exec_block(body, env, pc)

    def e_call(self, e, env, pc):
        f = e["func"]
        args = []
        for a in e["args"]:
            v, env, pc = self.eval(a, env, pc)
            args.append(v)
        if f["k"] == "path":
            p = f["path"]
            last = p.split("::")[-1]
            if p == "Some":
                return some(args[0]), env, pc
            if p == "Ok":
                return ok(args[0]), env, pc
            if p == "Err":
                return err(args[0]), env, pc
            if p in env and isinstance(env[p], VClosure):
                return self.call_closure(env[p], args, pc), env, pc
            if p in env and isinstance(env[p], VPyFn):
                return env[p].fn(self, args, pc), env, pc
            two_ = "::".join(p.split("::")[-2:])
            if p in self.overrides or two_ in self.overrides or last in self.overrides:
                self.models_used.add("stub:" + two_)
                self.current_call = (e, None)
                self.current_env = env
                r = (self.overrides.get(p) or self.overrides.get(two_) or self.overrides[last])(self, args, pc)
                if isinstance(r, Effects):
                    for i, nv in r.args.items():
                        _, env, pc = self.assign_to(strip_ref(e["args"][i]), nv, env, pc)
                    for place, nv in r.places:
                        _, env, pc = self.assign_to(strip_ref(place), nv, env, pc)
                    r = r.ret
                return r, env, pc
            if p in self.fns:
                return self.call_user(p, args, e["args"], env, pc)
            if p.startswith("Self::") and self.self_ty and self.self_ty[-1] and (self.self_ty[-1] + "::" + last) in self.fns:
                return self.call_user(self.self_ty[-1] + "::" + last, args, e["args"], env, pc)
            two = "::".join(p.split("::")[-2:])
            if two in self.fns:
                return self.call_user(two, args, e["args"], env, pc)
            m = LIB_FUNCS.get(p) or LIB_FUNCS.get(two)
            if m is not None:
                return m(self, args, pc), env, pc
            if "::" in p and last in self.fns and not last[:1].isupper() and not p.split("::")[-2][:1].isupper():
                # module-qualified free function, e.g. jumbf::labels::to_normalized_uri
                return self.call_user(last, args, e["args"], env, pc)
            if "::" in p and last[:1].isupper():
                ty = p.split("::")[-2]
                return VEnum(ty, TAG(ty, last), {last: args}), env, pc
            if "::" not in p and p[:1].isupper():
                # tuple-struct constructor, e.g. MerkleNode(bytes)
                return VStruct(p, {str(i): a for i, a in enumerate(args)}), env, pc
            raise Unsupported("call to unknown function %s (line %s)" % (p, e.get("line")))
        raise Unsupported("call of non-path expression")

    def call_user(self, fname, args, arg_asts, env, pc):
        r = self.call(fname, args, pc)
        env, pc = self.write_back_mut_args(fname, arg_asts, env, pc)
        return r, env, pc

    def call_closure_env(self, clo, args, pc):
        """run a closure and return the final values of its parameters (for `|x| x.push(..)`-style mutation)"""
        env = dict(clo.env)
        names = []
        for p, a in zip(clo.params, args):
            c, b = self.match_pat(p, a)
            env.update(b)
            names += list(b)
        fr = Frame("<closure>")
        self.frames.append(fr)
        try:
            _, env2, _ = self.eval(clo.body, env, pc)
        finally:
            self.frames.pop()
        return [env2.get(n) for n in names]

    def call_closure(self, clo, args, pc):
        env = dict(clo.env)
        if len(clo.params) != len(args):
            raise Unsupported("closure arity")
        for p, a in zip(clo.params, args):
            c, b = self.match_pat(p, a)
            env.update(b)
        return self.run_body("<closure>", {"k": "block", "stmts": [{"k": "expr", "semi": False, "expr": clo.body}]}, env, pc)

    def e_mcall(self, e, env, pc):
        recv_ast = e["recv"]
        name = e["method"]
        if recv_ast["k"] == "path":
            self.keep_refs = True
            try:
                recv, env, pc = self.eval(recv_ast, env, pc)
            finally:
                self.keep_refs = False
        else:
            recv, env, pc = self.eval(recv_ast, env, pc)
        if isinstance(recv, VUninit) and z3.is_false(z3.simplify(pc)):
            # the receiver is the value of an unreachable path (e.g. `x.ok_or(..)?.m()` after the `?` returned)
            return VUninit(), env, pc
        if isinstance(recv, VRefPlace):
            # method call through a `&mut` alias: operate on the place itself
            recv_ast = recv.place
            recv, env, pc = self.eval(recv_ast, env, pc)
        self.current_call = (e, recv_ast)
        self.current_env = env
        args = []
        for a in e["args"]:
            v, env, pc = self.eval(a, env, pc)
            args.append(v)
        # user-defined methods on structs
        if isinstance(recv, VStruct):
            key = "%s::%s" % (recv.name, name)
            if key in self.overrides:
                self.models_used.add("stub:" + key)
                r = self.overrides[key](self, [recv] + args, pc)
                if isinstance(r, Effects):
                    if r.recv is not None:
                        _, env, pc = self.assign_to(strip_ref(recv_ast), r.recv, env, pc)
                    for i, nv in r.args.items():
                        _, env, pc = self.assign_to(strip_ref(e["args"][i - 1]), nv, env, pc)
                    for place, nv in r.places:
                        _, env, pc = self.assign_to(strip_ref(place), nv, env, pc)
                    r = r.ret
                return r, env, pc
            if key in self.fns:
                r = self.call(key, [recv] + args, pc)
                p0 = self.fns[key]["sig"]["params"][:1]
                if p0 and p0[0].get("mut_ref") and self.last_self is not None:
                    _, env, pc = self.assign_to(strip_ref(recv_ast), self.last_self, env, pc)
                env, pc = self.write_back_mut_args(key, e["args"], env, pc)
                return r, env, pc
        # mutating String methods update the receiver variable
        if name in ("push_str", "push") and isinstance(recv, VStr):
            if recv_ast["k"] != "path" or recv_ast["path"] not in env:
                raise Unsupported("push on non-variable")
            env = dict(env)
            env[recv_ast["path"]] = VStr(bstr.concat(recv.e, as_bstr(args[0]), self.ob(pc)))
            return VUnit(), env, pc
        if name in ("clone_from_slice", "copy_from_slice") and isinstance(recv, VStr):
            src = as_bstr(args[0])
            self.panic(z3.And(pc, src.n != recv.e.n), "%s: source and destination lengths differ (line %s)" % (name, e.get("line")))
            _, env, pc = self.assign_to(strip_ref(recv_ast), VStr(src), env, pc)
            return VUnit(), env, pc
        if name in ("extend_from_slice", "extend") and isinstance(recv, VStr):
            _, env, pc = self.assign_to(strip_ref(recv_ast), VStr(bstr.named(bstr.concat(recv.e, as_bstr(args[0]), self.ob(pc)), self.side, "ext")), env, pc)
            return VUnit(), env, pc
        if name == "push" and isinstance(recv, VVec):
            _, env, pc = self.assign_to(strip_ref(recv_ast), vec_push(recv, args[0]), env, pc)
            return VUnit(), env, pc
        tname = type(recv).__name__
        key = (tname, name)
        if isinstance(recv, VEnum):
            key = (recv.ty, name)
        m = METHODS.get(key)
        if m is None:
            raise Unsupported("method %s on %s (line %s)" % (name, key[0], e.get("line")))
        self.models_used.add("%s::%s" % (key[0], name))
        r = m(self, recv, args, pc, e)
        if isinstance(r, Effects):
            if r.recv is not None:
                _, env, pc = self.assign_to(strip_ref(recv_ast), r.recv, env, pc)
            r = r.ret
        return r, env, pc

    # ---- loops: bounded unrolling with break/continue collected as (guard, env) states -------------
    def merge_states(self, states, env0):
        """states: [(pc, env)] with pairwise disjoint pcs -> (env, pc)"""
        live = [(z3.simplify(g), en) for g, en in states]
        live = [(g, en) for g, en in live if not z3.is_false(g)]
        if not live:
            return dict(env0), z3.BoolVal(False)
        g0, out = live[-1]
        out = {n: out.get(n, env0[n]) for n in env0}
        pc = g0
        for g, en in reversed(live[:-1]):
            out = {n: ite(g, en.get(n, env0[n]), out[n]) for n in env0}
            pc = z3.Or(g, pc)
        return out, z3.simplify(pc)

    def run_loop_body(self, body, envb, pc_body, env0):
        """-> (env_after_iteration, pc_continue_loop, exit_states) ; exit_states from `break`"""
        ctx = {"brk": [], "cont": []}
        self.loops.append(ctx)
        try:
            _, envb2, pcb = self.exec_block(body, envb, pc_body, {})
        finally:
            self.loops.pop()
        nxt_env, nxt_pc = self.merge_states([(pcb, envb2)] + ctx["cont"], env0)
        return nxt_env, nxt_pc, ctx["brk"]

    def e_break(self, e, env, pc):
        if e.get("expr") is not None:
            raise Unsupported("break with value")
        if not self.loops:
            raise Unsupported("break outside loop")
        self.loops[-1]["brk"].append((pc, dict(env)))
        return VUnit(), env, z3.BoolVal(False)

    def e_continue(self, e, env, pc):
        if not self.loops:
            raise Unsupported("continue outside loop")
        self.loops[-1]["cont"].append((pc, dict(env)))
        return VUnit(), env, z3.BoolVal(False)

    def e_for(self, e, env, pc):
        it, env, pc = self.eval(e["iter"], env, pc)
        if isinstance(it, VStruct) and (it.name + "::into_iter") in self.overrides:
            # `for x in container`: IntoIterator of a modelled container type
            self.models_used.add("stub:%s::into_iter" % it.name)
            it = self.overrides[it.name + "::into_iter"](self, [it], pc)
        if isinstance(it, VIter):
            it = it.vec
        if not isinstance(it, VVec):
            raise Unsupported("for over " + type(it).__name__)
        by_mut_ref = None
        if e["iter"]["k"] == "ref" and e["iter"].get("mutable"):
            # `for x in &mut place`: x aliases place[i]; writes through x update the vector
            if e["pat"]["k"] != "ident":
                raise Unsupported("destructuring pattern in a `for` over &mut")
            by_mut_ref = strip_ref(e["iter"])
        exits = []
        for i, item in enumerate(it.items):
            if by_mut_ref is not None:
                item = VRefPlace({"k": "index", "line": e.get("line"), "base": by_mut_ref,
                                  "index": {"k": "lit", "ty": "int", "value": str(i), "suffix": ""}})
            has = ugt(it.n, bv(i))
            active = z3.simplify(z3.And(pc, has))
            exits.append((z3.And(pc, z3.Not(has)), env))
            if z3.is_false(active):
                pc = z3.BoolVal(False)
                break
            c, binds = self.match_pat(e["pat"], item)
            envb = dict(env)
            envb.update(binds)
            env_n, pc_n, brk = self.run_loop_body(e["body"], envb, active, env)
            exits.extend(brk)
            env, pc = {n: env_n.get(n, env[n]) for n in env}, pc_n
        else:
            # all modelled slots consumed: if the sequence is longer than modelled, the bound was too small
            self.unwind(z3.And(pc, ugt(it.n, bv(len(it.items)))), "for loop at line %s needs more than %d iterations" % (e.get("line"), len(it.items)))
            exits.append((z3.And(pc, ule(it.n, bv(len(it.items)))), env))
            pc = z3.BoolVal(False)
        out, pco = self.merge_states(exits, env)
        return VUnit(), out, pco

    def e_while(self, e, env, pc):
        return self._loop(e, env, pc, e["cond"])

    def e_loop(self, e, env, pc):
        return self._loop(e, env, pc, None)

    def _loop(self, e, env, pc, cond):
        exits = []
        bound = self.loop_bound
        for it in range(bound + 1):
            if z3.is_false(z3.simplify(pc)):
                break
            binds = {}
            if cond is not None:
                if cond["k"] == "let_cond":
                    # `while let PAT = EXPR`: the loop runs while the pattern matches; its bindings live in the body only
                    sv, env, pc = self.eval(cond["expr"], env, pc)
                    c, binds = self.match_pat(cond["pat"], sv)
                    cv = VBool(c)
                else:
                    cv, env, pc = self.eval(cond, env, pc)
                exits.append((z3.And(pc, z3.Not(cv.e)), env))
                pc_body = z3.simplify(z3.And(pc, cv.e))
            else:
                pc_body = pc
            if z3.is_false(z3.simplify(pc_body)):
                pc = z3.BoolVal(False)
                break
            if it == bound:
                self.unwind(pc_body, "loop at line %s needs more than %d iterations" % (e.get("line"), bound))
                pc = z3.BoolVal(False)
                break
            envb = dict(env)
            envb.update(binds)
            env_n, pc_n, brk = self.run_loop_body(e["body"], envb, pc_body, env)
            exits.extend(brk)
            env, pc = {n: env_n.get(n, env[n]) for n in env}, pc_n
        out, pco = self.merge_states(exits, env)
        return VUnit(), out, pco

    def e_matches(self, e, env, pc):
        v, env, pc = self.eval(e["scrut"], env, pc)
        c, binds = self.match_pat(e["pat"], v)
        if e.get("guard") is not None:
            envg = dict(env)
            envg.update(binds)
            g, _, _ = self.eval(e["guard"], envg, z3.And(pc, c))
            c = z3.And(c, g.e)
        return VBool(c), env, pc

    def e_range(self, e, env, pc):
        lo = hi = None
        if e["lo"] is not None:
            lo, env, pc = self.eval(e["lo"], env, pc)
        if e["hi"] is not None:
            hi, env, pc = self.eval(e["hi"], env, pc)
        if lo is not None and hi is not None and (cval(lo.e) is None or cval(hi.e) is None):
            if not e["inclusive"]:
                if cval(lo.e) is not None:
                    # `lo..n` with symbolic n: a bounded index vector; e_for records the unwinding obligation
                    a = cval(lo.e)
                    cnt = z3.If(uge(hi.e, bv(a)), hi.e - bv(a), bv(0))
                    return VVec([VInt(a + i) for i in range(self.loop_bound)], cnt), env, pc
                raise Unsupported("half-open range with symbolic bounds")
            return VStruct("RangeInclusive", {"start": lo, "end": hi}), env, pc
        if lo is None or hi is None:
            raise Unsupported("open range")
        if cval(lo.e) is not None and cval(hi.e) is None and not e["inclusive"]:
            # `lo..n` with symbolic n: a bounded index vector; e_for records the unwinding obligation
            a = cval(lo.e)
            cnt = z3.If(uge(hi.e, bv(a)), hi.e - bv(a), bv(0))
            return VVec([VInt(a + i) for i in range(self.loop_bound)], cnt), env, pc
        a, b = cval(lo.e), cval(hi.e) + (1 if e["inclusive"] else 0)
        if b - a > 64:
            # a long concrete range: the first loop_bound indices, with the full count (a `for` over it records the
            # unwinding obligation if more iterations are actually reachable)
            return VVec([VInt(a + i) for i in range(self.loop_bound)], bv(b - a)), env, pc
        return VVec([VInt(i) for i in range(a, b)]), env, pc

    def e_array(self, e, env, pc):
        items = []
        for x in e["elems"]:
            v, env, pc = self.eval(x, env, pc)
            items.append(v)
        if items and all(isinstance(x, VChar) for x in items) and all(x.get("k") == "lit" and x.get("ty") == "int" for x in e["elems"]):
            # `[0u8]`, `[1u8, 2]`: an array of u8 literals is a byte string (char arrays such as ['/', '.'] stay char sets)
            return VStr(BStr([x.e for x in items], bv(len(items)))), env, pc
        return VVec(items), env, pc

    def e_repeat(self, e, env, pc):
        """[elem; N] with a literal N: byte arrays become byte strings of fixed length"""
        el, env, pc = self.eval(e["elem"], env, pc)
        n, env, pc = self.eval(e["len"], env, pc)
        k = cval(n.e)
        if k is None or k > 64:
            raise Unsupported("array repeat with non-constant or large length")
        if isinstance(el, VChar):
            return VStr(BStr([el.e] * k, bv(k))), env, pc
        if isinstance(el, VInt) and cval(el.e) is not None and cval(el.e) < 256:
            # untyped `[0; N]`: in the parsers under analysis these are byte buffers
            return VStr(BStr([b8(cval(el.e))] * k, bv(k))), env, pc
        return VVec([el] * k), env, pc

    def e_vec_repeat(self, e, env, pc):
        el, env, pc = self.eval(e["elem"], env, pc)
        n, env, pc = self.eval(e["len"], env, pc)
        if "vec_repeat" in self.overrides:
            self.models_used.add("stub:vec_repeat")
            return self.overrides["vec_repeat"](self, [el, n], pc), env, pc
        if isinstance(el, VChar):
            # a Vec<u8> longer than isize::MAX cannot be allocated: std panics with "capacity overflow"
            self.panic(z3.And(pc, ugt(n.e, bv((1 << 63) - 1))), "vec![_; n]: capacity overflow (n > isize::MAX) at line %s" % e.get("line"))
            # vec![0u8; n]: a byte buffer of symbolic length (capacity = buffer_cap)
            self.unwind(z3.And(pc, ugt(n.e, bv(self.buffer_cap))), "vec![_; n] longer than %d (line %s)" % (self.buffer_cap, e.get("line")))
            return VStr(BStr([el.e] * self.buffer_cap, n.e)), env, pc
        raise Unsupported("vec![elem; n] of non-bytes")

    def e_cfg_macro(self, e, env, pc):
        txt = e["text"].replace(" ", "")
        if txt not in self.cfg_values:
            raise Unsupported("cfg!(%s) without a configured value" % txt)
        return VBool(self.cfg_values[txt]), env, pc

    def e_unsupported(self, e, env, pc):
        raise Unsupported("syntax not handled by astdump: " + e.get("text", "")[:80])

    def e_let_cond(self, e, env, pc):
        raise Unsupported("let in expression position")


def strip_ref(ast):
    while True:
        if ast["k"] == "ref" or (ast["k"] == "unary" and ast["op"] == "*"):
            ast = ast["expr"]
        elif ast["k"] == "mcall" and ast["method"] in ("as_mut_slice", "as_mut", "as_slice", "borrow_mut") and not ast["args"]:
            ast = ast["recv"]
        else:
            return ast


def vec_push(vec, item):
    """vec ++ [item] for a vector of symbolic length (one more slot of capacity)"""
    items = []
    for i in range(len(vec.items) + 1):
        if i < len(vec.items):
            items.append(ite(vec.n == bv(i), item, vec.items[i]))
        else:
            items.append(item)
    return VVec(items, vec.n + bv(1))


def pat_names(p):
    k = p["k"]
    if k == "ident":
        return [p["name"]]
    if k in ("typed", "ref"):
        return pat_names(p["pat"])
    if k in ("tuple", "tuple_struct", "slice"):
        out = []
        for s in p["elems"]:
            out += pat_names(s)
        return out
    return []


# ------------------------------------------------------------------------------------ models
def m_to_ascii_lowercase(I, s, args, pc, e):
    return VStr(bstr.lower(s.e))


def m_eq_ignore_ascii_case(I, s, args, pc, e):
    return VBool(bstr.eq(bstr.lower(s.e), bstr.lower(as_bstr(args[0]))))


def m_split(I, s, args, pc, e):
    sep = as_bstr(args[0])
    # splitting by an empty pattern is not modelled
    if cval(sep.n) == 0:
        raise Unsupported("split by empty pattern")
    parts, n = bstr.split(s.e, sep, I.K, I.ob(pc), "(line %s)" % e.get("line"))
    return VIter(VVec([VStr(bstr.named(p, I.side, "part")) for p in parts], n))


def m_rsplit(I, s, args, pc, e):
    """only the `.rsplit(p).next()` idiom is modelled: an iterator whose first item is the last part"""
    sep = as_bstr(args[0])
    found, idx = bstr.lastindexof(s.e, sep)
    start = z3.If(found, idx + sep.n, bv(0))
    last = VStr(bstr.substr(s.e, start, s.e.n - start))
    return VRsplitHead(last)


def m_rsplit_once(I, s, args, pc, e):
    sep = as_bstr(args[0])
    found, idx = bstr.lastindexof(s.e, sep)
    l = VStr(bstr.substr(s.e, bv(0), idx))
    st = idx + sep.n
    r = VStr(bstr.substr(s.e, st, s.e.n - st))
    return opt(found, VTuple([l, r]))


def m_split_once(I, s, args, pc, e):
    sep = as_bstr(args[0])
    found, idx = bstr.indexof(s.e, sep)
    l = VStr(bstr.substr(s.e, bv(0), idx))
    st = idx + sep.n
    r = VStr(bstr.substr(s.e, st, s.e.n - st))
    return opt(found, VTuple([l, r]))


def m_rfind(I, s, args, pc, e):
    found, idx = bstr.lastindexof(s.e, as_bstr(args[0]))
    return opt(found, VInt(idx))


def m_find(I, s, args, pc, e):
    found, idx = bstr.indexof(s.e, as_bstr(args[0]))
    return opt(found, VInt(idx))


def m_strip_prefix(I, s, args, pc, e):
    p = as_bstr(args[0])
    return opt(bstr.prefixof(p, s.e), VStr(bstr.substr(s.e, p.n, s.e.n - p.n)))


def m_strip_suffix(I, s, args, pc, e):
    p = as_bstr(args[0])
    return opt(bstr.suffixof(p, s.e), VStr(bstr.substr(s.e, bv(0), s.e.n - p.n)))


def m_replace(I, s, args, pc, e):
    """str::replace for a one-byte pattern and a one-byte replacement (a per-byte map)"""
    a, b = as_bstr(args[0]), as_bstr(args[1])
    if cval(a.n) != 1 or cval(b.n) != 1:
        raise Unsupported("str::replace with patterns longer than one byte")
    return VStr(BStr([z3.If(c == a.b[0], b.b[0], c) for c in s.e.b], s.e.n))


def _any_pat(pat, f):
    """str patterns: a &str, a char, or an array/slice of chars (matches any of them)"""
    if isinstance(pat, VVec):
        n = cval(pat.n)
        if n is None:
            raise Unsupported("char-set pattern of symbolic length")
        return z3.Or([f(as_bstr(c)) for c in pat.items[:n]] or [z3.BoolVal(False)])
    if isinstance(pat, VClosure):
        raise Unsupported("closure used as a str pattern")
    return f(as_bstr(pat))


def m_ident(I, s, args, pc, e):
    return s


def m_len_str(I, s, args, pc, e):
    return VInt(s.e.n)


def m_bytes(I, s, args, pc, e):
    return VIter(VVec([VChar(c) for c in s.e.b], s.e.n))


def m_parse(I, s, args, pc, e):
    tf = (e.get("turbofish") or "").replace(" ", "")
    for tname, model in I.parse_models.items():
        if tname in tf:
            I.models_used.add("str::parse::<%s> (model in the property module)" % tname)
            return model(I, s, pc)
    tys = [t for t in ("usize", "u64", "u32") if t in tf]
    if not tys:
        raise Unsupported("parse::<%s>" % tf)
    lim = {"usize": 2 ** 64 - 1, "u64": 2 ** 64 - 1, "u32": 2 ** 32 - 1}[tys[0]]
    good, val = bstr.parse_unsigned(s.e, lim)
    return VEnum("Result", z3.If(good, TAG("Result", "Ok"), TAG("Result", "Err")), {"Ok": [VInt(val)], "Err": [VUnit()]})


def _forall_items(I, it, clo, pc, want_all):
    vec = it.vec if isinstance(it, VIter) else it
    acc = z3.BoolVal(True) if want_all else z3.BoolVal(False)
    for i in range(len(vec.items) - 1, -1, -1):
        if z3.is_false(z3.simplify(z3.And(pc, ugt(vec.n, bv(i))))):
            continue
        r = I.call_closure(clo, [vec.items[i]], z3.And(pc, ugt(vec.n, bv(i))))
        if not isinstance(r, VBool):
            raise Unsupported("closure in all/any must return bool")
        if want_all:
            acc = z3.If(ugt(vec.n, bv(i)), z3.And(r.e, acc), z3.BoolVal(True))
        else:
            acc = z3.If(ugt(vec.n, bv(i)), z3.Or(r.e, acc), z3.BoolVal(False))
    return VBool(acc)


def m_all(I, it, args, pc, e):
    return _forall_items(I, it, args[0], pc, True)


def m_any(I, it, args, pc, e):
    return _forall_items(I, it, args[0], pc, False)


def m_iter_find(I, it, args, pc, e):
    """Iterator::find / position: first element for which the predicate holds"""
    vec = it.vec if isinstance(it, VIter) else it
    res = none()
    for i in range(len(vec.items) - 1, -1, -1):
        live = z3.And(pc, ugt(vec.n, bv(i)))
        if z3.is_false(z3.simplify(live)):
            continue
        r = I.call_closure(args[0], [vec.items[i]], live)
        if not isinstance(r, VBool):
            raise Unsupported("closure in find must return bool")
        res = ite(z3.And(ugt(vec.n, bv(i)), r.e), some(vec.items[i]), res)
    return res


def m_position(I, it, args, pc, e):
    vec = it.vec if isinstance(it, VIter) else it
    res = none()
    for i in range(len(vec.items) - 1, -1, -1):
        live = z3.And(pc, ugt(vec.n, bv(i)))
        if z3.is_false(z3.simplify(live)):
            continue
        r = I.call_closure(args[0], [vec.items[i]], live)
        if not isinstance(r, VBool):
            raise Unsupported("closure in position must return bool")
        res = ite(z3.And(ugt(vec.n, bv(i)), r.e), some(VInt(i)), res)
    return res


def m_collect(I, it, args, pc, e):
    return it.vec


def m_iter_next(I, it, args, pc, e):
    v = it.vec
    if not v.items:
        return none()
    return opt(ugt(v.n, bv(0)), v.items[0])


def m_count(I, it, args, pc, e):
    return VInt(it.vec.n)


def m_iter_take_while(I, it, args, pc, e):
    """Iterator::take_while: the longest prefix whose elements all satisfy the predicate"""
    vec = it.vec if isinstance(it, VIter) else it
    alive = z3.BoolVal(True)
    cnt = bv(0)
    for i, x in enumerate(vec.items):
        live = z3.And(pc, alive, ugt(vec.n, bv(i)))
        if z3.is_false(z3.simplify(live)):
            break
        r = I.call_closure(args[0], [x], live)
        if not isinstance(r, VBool):
            raise Unsupported("closure in take_while must return bool")
        alive = z3.And(alive, ugt(vec.n, bv(i)), r.e)
        cnt = cnt + z3.If(alive, bv(1), bv(0))
    return VIter(VVec(vec.items, cnt))


def m_iter_zip(I, it, args, pc, e):
    """Iterator::zip: pairs up to the shorter of the two sequences"""
    a = it.vec if isinstance(it, VIter) else it
    o = args[0]
    if isinstance(o, VStr):
        o = VVec([VChar(c) for c in o.e.b], o.e.n)
    elif isinstance(o, VIter):
        o = o.vec
    if not isinstance(o, VVec):
        raise Unsupported("zip with " + type(o).__name__)
    k = min(len(a.items), len(o.items))
    # beyond the modelled capacity of the shorter list nothing can be paired (its length is bounded by its capacity)
    n = z3.If(ule(a.n, o.n), a.n, o.n)
    return VIter(VVec([VTuple([a.items[i], o.items[i]]) for i in range(k)], n))


def m_iter_fold(I, it, args, pc, e):
    """Iterator::fold(init, |acc, x| ..)"""
    vec = it.vec if isinstance(it, VIter) else it
    acc = args[0]
    for i, x in enumerate(vec.items):
        live = z3.And(pc, ugt(vec.n, bv(i)))
        if z3.is_false(z3.simplify(live)):
            break
        nxt = I.call_closure(args[1], [acc, x], live)
        acc = ite(ugt(vec.n, bv(i)), nxt, acc)
    return acc


def m_iter_filter(I, it, args, pc, e):
    """Iterator::filter of which only `.count()` is modelled: the number of elements satisfying the predicate"""
    vec = it.vec if isinstance(it, VIter) else it
    n = bv(0)
    for i, x in enumerate(vec.items):
        live = z3.And(pc, ugt(vec.n, bv(i)))
        if z3.is_false(z3.simplify(live)):
            continue
        r = I.call_closure(args[0], [x], live)
        if not isinstance(r, VBool):
            raise Unsupported("closure in filter must return bool")
        n = n + z3.If(z3.And(ugt(vec.n, bv(i)), r.e), bv(1), bv(0))
    return VCount(n)


def m_str_split_at(I, s, args, pc, e):
    """<[u8]>::split_at(mid): panics when mid > len"""
    mid = args[0].e
    I.panic(z3.And(pc, ugt(mid, s.e.n)), "split_at: mid > len at line %s" % e.get("line"))
    return VTuple([VStr(bstr.substr(s.e, bv(0), mid)), VStr(bstr.substr(s.e, mid, s.e.n - mid))])


def m_str_last(I, s, args, pc, e):
    n = s.e.n
    return opt(ugt(n, bv(0)), VChar(bstr.at(s.e, n - bv(1))))


def m_str_pop(I, s, args, pc, e):
    n = s.e.n
    nonempty = ugt(n, bv(0))
    return Effects(opt(nonempty, VChar(bstr.at(s.e, n - bv(1)))), recv=VStr(BStr(s.e.b, z3.If(nonempty, n - bv(1), n))))


def m_vec_insert(I, v, args, pc, e):
    """Vec::insert(index, item) at a possibly symbolic index (panics when index > len)"""
    idx, item = args[0].e, args[1]
    I.panic(z3.And(pc, ugt(idx, v.n)), "Vec::insert index out of bounds at line %s" % e.get("line"))
    items = []
    for j in range(len(v.items) + 1):
        here = item
        if j < len(v.items):
            cur = v.items[j]
            here = ite(idx == bv(j), item, cur)
        if j > 0:
            here = ite(ult(idx, bv(j)), v.items[j - 1], here)
        items.append(here)
    return Effects(VUnit(), recv=VVec(items, v.n + bv(1)))


def m_vec_len(I, v, args, pc, e):
    return VInt(v.n)


def m_vec_iter(I, v, args, pc, e):
    return VIter(v)


def m_vec_last(I, v, args, pc, e):
    return opt(ugt(v.n, bv(0)), I.vec_get(v, v.n - bv(1)))


def m_vec_first(I, v, args, pc, e):
    return opt(ugt(v.n, bv(0)), v.items[0] if v.items else VUninit())


def m_vec_get(I, v, args, pc, e):
    idx = args[0].e
    return opt(ult(idx, v.n), I.vec_get(v, idx))


def m_step_by(I, v, args, pc, e):
    k = cval(args[0].e)
    n = cval(v.n)
    if k is None or n is None or k == 0:
        raise Unsupported("step_by with symbolic length/step")
    items = v.items[:n][::k]
    return VIter(VVec(items))


def _ordering(lt, eq_):
    for nm in ("Less", "Equal", "Greater"):
        TAG("Ordering", nm)
    return VEnum("Ordering", z3.If(lt, TAG("Ordering", "Less"), z3.If(eq_, TAG("Ordering", "Equal"), TAG("Ordering", "Greater"))), {})


def m_int_cmp(I, a, args, pc, e):
    return _ordering(ult(a.e, args[0].e), a.e == args[0].e)


def m_checked_add(I, a, args, pc, e):
    b = args[0]
    return opt(z3.BVAddNoOverflow(a.e, b.e, False), VInt(a.e + b.e))


def m_checked_sub(I, a, args, pc, e):
    b = args[0]
    return opt(uge(a.e, b.e), VInt(a.e - b.e))


def m_div_ceil(I, a, args, pc, e):
    b = args[0]
    I.panic(z3.And(pc, b.e == bv(0)), "division by zero at line %s" % e.get("line"))
    q = z3.UDiv(a.e, b.e)
    return VInt(z3.If(z3.URem(a.e, b.e) == bv(0), q, q + bv(1)))


def m_to_be_bytes(I, a, args, pc, e):
    return VStr(BStr([z3.Extract(63 - 8 * i, 56 - 8 * i, a.e) for i in range(8)], bv(8)))


def _sort_items(I, v, less, pc):
    """stable insertion sort using less(a, b) -> z3 Bool 'a sorts strictly before b'.
    Vectors of symbolic length are sorted over their whole capacity with the slots beyond the length
    treated as +infinity (they stay at the end)."""
    n = cval(v.n)
    if n is not None:
        items = list(v.items[:n])
        valid = [z3.BoolVal(True)] * n
    else:
        items = list(v.items)
        valid = [ult(bv(i), v.n) for i in range(len(items))]
    for i in range(1, len(items)):
        for j in range(i, 0, -1):
            # move items[j] left over items[j-1] iff it is valid and (the left one is not, or it is strictly smaller)
            swap = z3.simplify(z3.And(valid[j], z3.Or(z3.Not(valid[j - 1]), less(items[j], items[j - 1]))))
            a, b = items[j - 1], items[j]
            if z3.is_false(swap):
                continue
            items[j - 1], items[j] = I.name_value(ite(swap, b, a)), I.name_value(ite(swap, a, b))
            va, vb = valid[j - 1], valid[j]
            valid[j - 1], valid[j] = I.name_value(VBool(z3.If(swap, vb, va))).e, I.name_value(VBool(z3.If(swap, va, vb))).e
    return VVec(items, v.n)


def _key_less(a, b):
    """strict order on sort keys: unsigned integers, bools, chars, and tuples of those (lexicographic)"""
    if isinstance(a, VTuple) and isinstance(b, VTuple) and len(a.items) == len(b.items):
        res = z3.BoolVal(False)
        for x, y in reversed(list(zip(a.items, b.items))):
            res = z3.Or(_key_less(x, y), z3.And(veq(x, y), res))
        return res
    if isinstance(a, (VInt, VChar)) and isinstance(b, (VInt, VChar)):
        return ult(a.e, b.e)
    if isinstance(a, VBool) and isinstance(b, VBool):
        return z3.And(z3.Not(a.e), b.e)
    raise Unsupported("sort key of type %s" % type(a).__name__)


def m_sort_by_key(I, v, args, pc, e):
    clo = args[0]
    def less(x, y):
        kx, ky = I.call_closure(clo, [x], pc), I.call_closure(clo, [y], pc)
        return _key_less(kx, ky)
    return Effects(VUnit(), recv=_sort_items(I, v, less, pc))


def m_sort_by(I, v, args, pc, e):
    clo = args[0]
    def less(x, y):
        o = I.call_closure(clo, [x, y], pc)
        return o.tag == TAG("Ordering", "Less")
    return Effects(VUnit(), recv=_sort_items(I, v, less, pc))


def m_sort(I, v, args, pc, e):
    return Effects(VUnit(), recv=_sort_items(I, v, lambda x, y: ult(x.e, y.e), pc))


def m_vec_contains(I, v, args, pc, e):
    x = args[0]
    return VBool(z3.Or([z3.And(ult(bv(i), v.n), veq(it, x)) for i, it in enumerate(v.items)] or [z3.BoolVal(False)]))


def m_iter_map(I, it, args, pc, e):
    vec = it.vec
    out = []
    for i, x in enumerate(vec.items):
        g = z3.And(pc, ugt(vec.n, bv(i)))
        if z3.is_false(z3.simplify(g)):
            out.append(VUninit())
            continue
        out.append(I.call_closure(args[0], [x], g))
    return VIter(VVec(out, vec.n))


def m_iter_sum(I, it, args, pc, e):
    vec = it.vec
    acc = bv(0)
    for i, x in enumerate(vec.items):
        if isinstance(x, VUninit):
            continue
        acc = acc + z3.If(ugt(vec.n, bv(i)), x.e, bv(0))
    return VInt(acc)


def m_vec_is_empty(I, v, args, pc, e):
    return VBool(v.n == bv(0))


def m_join(I, v, args, pc, e):
    sep = as_bstr(args[0])
    if not v.items:
        return VStr(S(""))
    acc = S("")
    # join(items[0..n]) built right to left
    for i in range(len(v.items) - 1, -1, -1):
        piece = v.items[i].e
        with_sep = bstr.concat(bstr.concat(piece, sep, I.ob(pc)), acc, I.ob(pc))
        acc = bstr.ite(ugt(v.n, bv(i)), bstr.ite(ugt(v.n, bv(i + 1)), with_sep, piece), S(""))
    return VStr(acc)


def _alpha(c):
    return z3.Or(z3.And(uge(c, b8(65)), ule(c, b8(90))), z3.And(uge(c, b8(97)), ule(c, b8(122))))


def m_char_is_ascii_digit(I, c, args, pc, e):
    return VBool(bstr.is_digit(c.e))


def m_opt_unwrap_or(I, o, args, pc, e):
    pl = o.payload.get("Some")
    if pl is None:
        return args[0]
    return ite(is_some(o), pl[0], args[0])


def m_opt_unwrap(I, o, args, pc, e):
    good = is_some(o) if o.ty == "Option" else is_ok(o)
    I.panic(z3.And(pc, z3.Not(good)), "unwrap() on None/Err at line %s" % e.get("line"))
    pl = o.payload.get("Some" if o.ty == "Option" else "Ok")
    if pl is None:
        return VUninit()
    return pl[0]


def m_opt_is_some(I, o, args, pc, e):
    return VBool(is_some(o))


def m_opt_is_none(I, o, args, pc, e):
    return VBool(z3.Not(is_some(o)))


def m_opt_map(I, o, args, pc, e):
    pl = o.payload.get("Some")
    if pl is None or z3.is_false(z3.simplify(z3.And(pc, is_some(o)))):
        return none()
    r = I.call_closure(args[0], [pl[0]], z3.And(pc, is_some(o)))
    return opt(is_some(o), r)


def m_opt_map_or(I, o, args, pc, e):
    """Option::map_or(default, f)"""
    if "Some" not in o.payload:
        return args[0]
    r = I.call_closure(args[1], [o.payload["Some"][0]], z3.And(pc, is_some(o)))
    return ite(is_some(o), r, args[0])


def m_opt_is_some_and(I, o, args, pc, e):
    if "Some" not in o.payload:
        return VBool(False)
    r = I.call_closure(args[0], [o.payload["Some"][0]], z3.And(pc, is_some(o)))
    return VBool(z3.And(is_some(o), r.e))


def m_opt_unwrap_or_else(I, o, args, pc, e):
    d = I.call_closure(args[0], [], z3.And(pc, z3.Not(is_some(o))))
    if "Some" not in o.payload:
        return d
    return ite(is_some(o), o.payload["Some"][0], d)


def m_opt_and_then(I, o, args, pc, e):
    pl = o.payload.get("Some")
    if pl is None or z3.is_false(z3.simplify(z3.And(pc, is_some(o)))):
        return none()
    r = I.call_closure(args[0], [pl[0]], z3.And(pc, is_some(o)))
    if not isinstance(r, VEnum) or r.ty != "Option":
        raise Unsupported("and_then closure must return Option")
    return VEnum("Option", z3.If(is_some(o), r.tag, TAG("Option", "None")), r.payload)


def m_opt_ok_or_else(I, o, args, pc, e):
    pl = o.payload.get("Some")
    ev = args[0] if args and isinstance(args[0], VEnum) else opaque_err()
    return VEnum("Result", z3.If(is_some(o), TAG("Result", "Ok"), TAG("Result", "Err")),
                 {"Ok": pl if pl is not None else [VUninit()], "Err": [ev]})


def _apply_fn_value(I, f, arg, pc):
    """apply a closure, or a function named by a path expression (evaluated as a unit 'variant')"""
    if isinstance(f, VClosure):
        return I.call_closure(f, [arg], pc)
    if isinstance(f, VEnum) and not f.payload:
        names = [k[1] for k, val in _TAGS.items() if k[0] == f.ty and z3.is_bv_value(f.tag) and val == f.tag.as_long()]
        if names:
            key = "%s::%s" % (f.ty, names[0])
            if key in I.overrides:
                I.models_used.add("stub:" + key)
                return I.overrides[key](I, [arg], pc)
            if key in I.fns:
                return I.call(key, [arg], pc)
    raise Unsupported("function value not understood")


def m_res_map(I, r, args, pc, e):
    pl = r.payload.get("Ok")
    if pl is None or z3.is_false(z3.simplify(z3.And(pc, is_ok(r)))):
        return VEnum("Result", r.tag, {"Err": r.payload.get("Err", [VUnit()])})
    v = _apply_fn_value(I, args[0], pl[0], z3.And(pc, is_ok(r)))
    return VEnum("Result", r.tag, {"Ok": [v], "Err": r.payload.get("Err", [VUnit()])})


def m_res_ok(I, r, args, pc, e):
    pl = r.payload.get("Ok")
    return VEnum("Option", z3.If(is_ok(r), TAG("Option", "Some"), TAG("Option", "None")), {"Some": pl} if pl is not None else {})


def m_res_is_ok(I, r, args, pc, e):
    return VBool(is_ok(r))


def m_res_is_err(I, r, args, pc, e):
    return VBool(z3.Not(is_ok(r)))


def _is_ws(c):
    return z3.Or(c == b8(0x20), z3.And(uge(c, b8(0x09)), ule(c, b8(0x0d))))


def m_split_whitespace(I, s, args, pc, e):
    """only `.split_whitespace().count()` is modelled: number of maximal runs of non-whitespace"""
    cnt = bv(0)
    for i in range(s.e.cap):
        starts = z3.And(ult(bv(i), s.e.n), z3.Not(_is_ws(s.e.b[i])))
        if i > 0:
            starts = z3.And(starts, _is_ws(s.e.b[i - 1]))
        cnt = cnt + z3.If(starts, bv(1), bv(0))
    return VCount(cnt)


METHODS = {
    ("VStr", "to_ascii_lowercase"): m_to_ascii_lowercase,
    ("VStr", "to_lowercase"): m_to_ascii_lowercase,  # ASCII inputs (format names, labels)
    ("VStr", "eq_ignore_ascii_case"): m_eq_ignore_ascii_case,
    ("VStr", "split"): m_split,
    ("VStr", "rsplit_once"): m_rsplit_once,
    ("VStr", "split_once"): m_split_once,
    ("VStr", "strip_prefix"): m_strip_prefix,
    ("VStr", "strip_suffix"): m_strip_suffix,
    ("VStr", "starts_with"): lambda I, s, a, pc, e: VBool(_any_pat(a[0], lambda p: bstr.prefixof(p, s.e))),
    ("VStr", "ends_with"): lambda I, s, a, pc, e: VBool(_any_pat(a[0], lambda p: bstr.suffixof(p, s.e))),
    ("VStr", "contains"): lambda I, s, a, pc, e: VBool(_any_pat(a[0], lambda p: bstr.contains(s.e, p))),
    ("VStr", "is_empty"): lambda I, s, a, pc, e: VBool(s.e.n == bv(0)),
    ("VStr", "rsplit"): m_rsplit,
    ("VStr", "rfind"): m_rfind,
    ("VStr", "find"): m_find,
    ("VRsplitHead", "next"): lambda I, s, a, pc, e: some(s.last),
    ("VCount", "count"): lambda I, s, a, pc, e: VInt(s.n),
    ("VStr", "len"): m_len_str,
    ("VStr", "split_at"): m_str_split_at,
    ("VStr", "last"): m_str_last,
    ("VStr", "pop"): m_str_pop,
    ("VStr", "truncate"): lambda I, s_, a, pc, e: Effects(VUnit(), recv=VStr(BStr(s_.e.b, z3.If(ult(a[0].e, s_.e.n), a[0].e, s_.e.n)))),
    ("VStr", "try_into"): lambda I, s, a, pc, e: ok(s),
    ("VInt", "try_into"): lambda I, s, a, pc, e: ok(s),
    ("VStr", "as_mut_slice"): m_ident,
    ("VStr", "as_slice"): m_ident,
    ("VStr", "to_vec"): m_ident,
    ("VStr", "to_str"): lambda I, s, a, pc, e: some(s),
    ("VStr", "replace"): m_replace,
    ("VStr", "to_string"): m_ident,
    ("VStr", "to_owned"): m_ident,
    ("VStr", "into_owned"): m_ident,
    ("VStr", "as_str"): m_ident,
    ("VStr", "as_ref"): m_ident,
    ("VStr", "as_bytes"): m_ident,
    ("VStr", "clone"): m_ident,
    ("VStr", "into"): m_ident,
    ("VStr", "borrow"): m_ident,
    ("VStr", "bytes"): m_bytes,
    ("VStr", "chars"): m_bytes,
    ("VStr", "parse"): m_parse,
    ("VStr", "split_whitespace"): m_split_whitespace,
    ("VStr", "is_ascii"): lambda I, s, a, pc, e: VBool(bstr.all_bytes(s.e, lambda c: ult(c, b8(128)))),
    ("VChar", "is_ascii_digit"): m_char_is_ascii_digit,
    ("VChar", "is_ascii_alphabetic"): lambda I, c, a, pc, e: VBool(_alpha(c.e)),
    ("VChar", "is_ascii_alphanumeric"): lambda I, c, a, pc, e: VBool(z3.Or(_alpha(c.e), bstr.is_digit(c.e))),
    ("VChar", "is_ascii_uppercase"): lambda I, c, a, pc, e: VBool(z3.And(uge(c.e, b8(65)), ule(c.e, b8(90)))),
    ("VChar", "is_ascii_lowercase"): lambda I, c, a, pc, e: VBool(z3.And(uge(c.e, b8(97)), ule(c.e, b8(122)))),
    ("VChar", "is_ascii_hexdigit"): lambda I, c, a, pc, e: VBool(z3.Or(bstr.is_digit(c.e), z3.And(uge(c.e, b8(97)), ule(c.e, b8(102))), z3.And(uge(c.e, b8(65)), ule(c.e, b8(70))))),
    ("VChar", "is_ascii_whitespace"): lambda I, c, a, pc, e: VBool(z3.Or(c.e == b8(0x20), c.e == b8(0x09), c.e == b8(0x0a), c.e == b8(0x0c), c.e == b8(0x0d))),
    ("VChar", "is_ascii"): lambda I, c, a, pc, e: VBool(ult(c.e, b8(128))),
    ("VChar", "is_ascii_punctuation"): lambda I, c, a, pc, e: VBool(z3.And(uge(c.e, b8(0x21)), ule(c.e, b8(0x7e)), z3.Not(z3.Or(_alpha(c.e), bstr.is_digit(c.e))))),
    ("VChar", "to_ascii_lowercase"): lambda I, c, a, pc, e: VChar(z3.If(z3.And(uge(c.e, b8(65)), ule(c.e, b8(90))), c.e + b8(32), c.e)),
    ("VChar", "to_ascii_uppercase"): lambda I, c, a, pc, e: VChar(z3.If(z3.And(uge(c.e, b8(97)), ule(c.e, b8(122))), c.e - b8(32), c.e)),
    ("VChar", "clone"): m_ident,
    ("VIter", "all"): m_all,
    ("VIter", "any"): m_any,
    ("VIter", "find"): m_iter_find,
    ("VIter", "position"): m_position,
    ("VIter", "collect"): m_collect,
    ("VIter", "next"): m_iter_next,
    ("VIter", "count"): m_count,
    ("VIter", "filter"): m_iter_filter,
    ("VIter", "zip"): m_iter_zip,
    ("VIter", "fold"): m_iter_fold,
    ("VStr", "iter"): m_bytes,
    ("VIter", "take_while"): m_iter_take_while,
    ("VIter", "skip_while"): lambda I, it, a, pc, e: (_ for _ in ()).throw(Unsupported("skip_while")),
    ("VVec", "len"): m_vec_len,
    ("VVec", "insert"): m_vec_insert,
    ("VVec", "iter"): m_vec_iter,
    ("VVec", "into_iter"): m_vec_iter,
    ("VVec", "last"): m_vec_last,
    ("VVec", "first"): m_vec_first,
    ("VVec", "get"): m_vec_get,
    ("VVec", "is_empty"): m_vec_is_empty,
    ("VVec", "join"): m_join,
    ("Option", "unwrap_or"): m_opt_unwrap_or,
    ("Option", "unwrap"): m_opt_unwrap,
    ("Option", "is_some"): m_opt_is_some,
    ("Option", "is_none"): m_opt_is_none,
    ("Option", "map"): m_opt_map,
    ("Option", "and_then"): m_opt_and_then,
    ("Option", "map_or"): m_opt_map_or,
    ("Option", "is_some_and"): m_opt_is_some_and,
    ("Option", "unwrap_or_else"): m_opt_unwrap_or_else,
    ("Option", "copied"): m_ident,
    ("Option", "cloned"): m_ident,
    ("Option", "as_deref"): m_ident,
    ("Option", "as_ref"): m_ident,
    ("Option", "clone"): m_ident,
    ("Option", "ok_or_else"): m_opt_ok_or_else,
    ("Option", "ok_or"): m_opt_ok_or_else,
    ("Result", "map"): m_res_map,
    ("Result", "unwrap_or_default"): lambda I, r, a, pc, e: (r.payload.get("Ok") or [VUnit()])[0],
    ("Result", "ok"): m_res_ok,
    ("Result", "map_err"): lambda I, r, a, pc, e: VEnum("Result", r.tag, {"Ok": r.payload.get("Ok", [VUninit()]), "Err": [VUnit()]}),
    ("Result", "is_ok"): m_res_is_ok,
    ("Result", "is_err"): m_res_is_err,
    ("Result", "unwrap"): m_opt_unwrap,
    ("VOpaque", "clone"): m_ident,
    ("VOpaque", "to_vec"): m_ident,
    ("VOpaque", "to_owned"): m_ident,
    ("VOpaque", "as_ref"): m_ident,
    ("VVec", "to_vec"): m_ident,
    ("VVec", "clone"): m_ident,
    ("VVec", "step_by"): m_step_by,
    ("VIter", "step_by"): lambda I, it, a, pc, e: m_step_by(I, it.vec, a, pc, e),
    ("VUnit", "clone"): m_ident,
    ("VInt", "clone"): m_ident,
    ("VInt", "into"): m_ident,
    ("VInt", "get"): m_ident,
    ("VInt", "cmp"): m_int_cmp,
    ("VInt", "max"): lambda I, a, args, pc, e: VInt(z3.If(uge(a.e, args[0].e), a.e, args[0].e)),
    ("VInt", "min"): lambda I, a, args, pc, e: VInt(z3.If(ule(a.e, args[0].e), a.e, args[0].e)),
    ("VInt", "saturating_sub"): lambda I, a, args, pc, e: VInt(z3.If(uge(a.e, args[0].e), a.e - args[0].e, bv(0))),
    ("VInt", "saturating_add"): lambda I, a, args, pc, e: VInt(z3.If(z3.BVAddNoOverflow(a.e, args[0].e, False), a.e + args[0].e, bv(2 ** 64 - 1))),
    ("VInt", "wrapping_sub"): lambda I, a, args, pc, e: VInt(a.e - args[0].e),
    ("VInt", "wrapping_add"): lambda I, a, args, pc, e: VInt(a.e + args[0].e),
    ("VInt", "abs_diff"): lambda I, a, args, pc, e: VInt(z3.If(uge(a.e, args[0].e), a.e - args[0].e, args[0].e - a.e)),
    ("VInt", "is_power_of_two"): lambda I, a, args, pc, e: VBool(z3.And(a.e != bv(0), (a.e & (a.e - bv(1))) == bv(0))),
    ("VInt", "pow"): lambda I, a, args, pc, e: (_ for _ in ()).throw(Unsupported("pow")),
    ("VInt", "checked_add"): m_checked_add,
    ("VInt", "checked_sub"): m_checked_sub,
    ("VInt", "div_ceil"): m_div_ceil,
    ("VInt", "to_be_bytes"): m_to_be_bytes,
    ("VVec", "sort_by_key"): m_sort_by_key,
    ("VVec", "sort_by"): m_sort_by,
    ("VVec", "sort"): m_sort,
    ("VVec", "contains"): m_vec_contains,
    ("VIter", "map"): m_iter_map,
    ("VIter", "sum"): m_iter_sum,
    ("VBool", "clone"): m_ident,
    ("VStruct", "clone"): m_ident,
    ("VStruct", "into"): m_ident,
}

def _min(I, a, pc):
    return VInt(z3.If(ule(a[0].e, a[1].e), a[0].e, a[1].e))


def _max(I, a, pc):
    return VInt(z3.If(uge(a[0].e, a[1].e), a[0].e, a[1].e))


LIB_FUNCS = {
    "std::cmp::min": _min,
    "cmp::min": _min,
    "std::cmp::max": _max,
    "cmp::max": _max,
    "String::new": lambda I, a, pc: VStr(S("")),
    "String::from": lambda I, a, pc: a[0],
    "Vec::new": lambda I, a, pc: VVec([]),
}


# ------------------------------------------------------------------------------------ concretisation
def concrete(v, model=None):
    """python value of a (model-evaluated) symbolic value; used by differential validation/replay"""
    def ev(x):
        return model.eval(x, model_completion=True) if model is not None else z3.simplify(x)
    if isinstance(v, VStr):
        c = bstr.concrete(v.e, model)
        if c is None:
            raise Unsupported("string not concrete")
        return c
    if isinstance(v, VChar):
        x = ev(v.e)
        if not z3.is_bv_value(x):
            raise Unsupported("char not concrete")
        return chr(x.as_long())
    if isinstance(v, VInt):
        x = ev(v.e)
        if not z3.is_bv_value(x):
            raise Unsupported("not concrete: %s" % x)
        return x.as_long()
    if isinstance(v, VBool):
        x = ev(v.e)
        if z3.is_true(x):
            return True
        if z3.is_false(x):
            return False
        raise Unsupported("not concrete: %s" % x)
    if isinstance(v, VUnit):
        return None
    if isinstance(v, VOpaque):
        return str(ev(v.e))
    if isinstance(v, VEnum):
        t = ev(v.tag)
        if not z3.is_bv_value(t):
            raise Unsupported("tag not concrete")
        t = t.as_long()
        names = [k[1] for k, val in _TAGS.items() if k[0] == v.ty and val == t]
        name = names[0] if names else "?"
        pl = v.payload.get(name)
        return {"variant": name, "payload": [concrete(x, model) for x in pl] if pl else []}
    if isinstance(v, VTuple):
        return [concrete(x, model) for x in v.items]
    if isinstance(v, VStruct):
        return {k: concrete(x, model) for k, x in v.fields.items()}
    if isinstance(v, VVec):
        n = ev(v.n).as_long()
        return [concrete(x, model) for x in v.items[:n]]
    raise Unsupported("concrete of %s" % type(v).__name__)

"""Run the Engine-Z part of a property: differential validation of the encoder, then every query of
the property's props module, then native replay of counterexamples.  Used by /verif/check."""
import importlib
import json
import os
import sys
import time

HERE = os.path.dirname(os.path.abspath(__file__))
sys.path.insert(0, HERE)

import engine  # noqa: E402


def run_property(pid, spec, tier, seed, logdir, jobs=4):
    """spec: dict(module=..., K=..., N=...).  Returns dict(results=[...], build_error=None|str, diff=...)"""
    out = {"results": [], "build_error": None, "diff": None}
    os.makedirs(logdir, exist_ok=True)
    ok, msg = engine.build_tools(log=os.path.join(logdir, "native_build.log"))
    if not ok:
        out["build_error"] = msg
        return out
    mod = importlib.import_module(spec["module"])
    files = mod.FILES
    K = spec.get("K", 6)
    N = spec.get("N", 24)
    lits = getattr(mod, "LITS", None)
    if callable(lits):
        lits = lits()
    overrides = getattr(mod, "OVERRIDES", None)
    native_map = getattr(mod, "NATIVE_MAP", {})
    # 1. differential validation of the encoder + library models on concrete vectors
    vectors = list(getattr(mod, "VECTORS", []))
    extra = getattr(mod, "random_vectors", None)
    if extra:
        vectors += extra(seed, 40 if tier == "quick" else 400)
    t0 = time.time()
    try:
        n, mism = engine.differential(files, vectors, native_map=native_map, K=K, N=N, lits=lits,
                                      overrides=getattr(mod, "DIFF_OVERRIDES", getattr(mod, "OVERRIDES", None)),
                                      composites=getattr(mod, "COMPOSITES", None))
    except Exception as ex:  # noqa: BLE001
        out["build_error"] = "differential validation could not run: %r" % (ex,)
        return out
    out["diff"] = {"vectors": n, "mismatches": mism[:10], "n_mismatches": len(mism), "wall_s": round(time.time() - t0, 2)}
    # 2. queries (each in its own process: z3 is single-threaded)
    qnames = [q.__name__ for q in mod.make_queries(tier)]
    only = os.environ.get("VERIF_ONLY")
    if only:
        qnames = [q for q in qnames if only in q]
    import concurrent.futures as cf
    import multiprocessing as mp
    ctx = mp.get_context("fork")
    with cf.ProcessPoolExecutor(max_workers=max(1, jobs), mp_context=ctx) as ex:
        futs = [ex.submit(_run_query, spec, tier, qn, mism, logdir) for qn in qnames]
        for f in futs:
            try:
                out["results"].append(f.result())
            except Exception as exn:  # noqa: BLE001
                out["results"].append({"harness": spec["module"] + "::?", "query": "?", "result": "INCONCLUSIVE",
                                       "reason": "query process crashed: %r" % (exn,), "obligations": [], "counterexamples": [], "confirmed": []})
    return out


def _run_query(spec, tier, qname, mism, logdir):
    mod = importlib.import_module(spec["module"])
    files = mod.FILES
    K = spec.get("K", 6)
    N = spec.get("N", 24)
    lits = getattr(mod, "LITS", None)
    if callable(lits):
        lits = lits()
    overrides = getattr(mod, "OVERRIDES", None)
    native_map = getattr(mod, "NATIVE_MAP", {})
    q = [x for x in mod.make_queries(tier) if x.__name__ == qname][0]
    if True:
        r = engine.solve_query(q, files, tier, K=K, N=N, timeout_ms=spec.get("timeout_ms", 300000), native_map=native_map,
                               lits=lits, overrides=overrides, logic=getattr(mod, "LOGIC", "QF_BV"))
        r["harness"] = "%s::%s" % (spec["module"], q.__name__)
        r["bounds"] = {"split_parts_max": K + 1, "per_char_ops_max_len": N, "string_capacity_max": engine.bstr.MAXCAP,
                       "tier_caps": getattr(mod, "caps", lambda t: {})(tier)}
        # 3. replay counterexamples natively
        confirmed = []
        for cx in r.get("counterexamples", []):
            try:
                rep, detail = engine.replay_counterexample(q, files, cx["inputs"], cx["obligation"], cx["kind"], native_map=native_map, lits=lits)
            except Exception as ex:  # noqa: BLE001
                rep, detail = False, {"note": "replay crashed: %r" % (ex,)}
            if not rep:
                for alt in cx.get("alternates", []):
                    try:
                        rep2, detail2 = engine.replay_counterexample(q, files, alt, cx["obligation"], cx["kind"], native_map=native_map, lits=lits)
                    except Exception as ex:  # noqa: BLE001
                        rep2, detail2 = False, {"note": "replay crashed: %r" % (ex,)}
                    if rep2:
                        cx["first_model_not_reproduced"] = cx["inputs"]
                        cx["inputs"], rep, detail = alt, True, detail2
                        break
            cx["reproduced_natively"] = rep
            cx["replay_detail"] = detail
            if rep:
                confirmed.append(cx)
        if r["result"] == "FAIL" and not confirmed:
            r["result"] = "INCONCLUSIVE"
            r["reason"] = "solver counterexample did not reproduce on the real code (encoder/model suspect): " + r["reason"]
        r["confirmed"] = confirmed
        if mism and r["result"] == "PASS":
            r["result"] = "INCONCLUSIVE"
            r["reason"] = "encoder disagrees with the real code on %d concrete vectors (first: %s)" % (len(mism), json.dumps(mism[0])[:300])
        with open(os.path.join(logdir, q.__name__ + ".json"), "w") as f:
            json.dump(r, f, indent=1, default=str)
        return r

"""C29 (lexical kernel) -- resource/archive identifiers never map outside the manifest root.
Sources executed symbolically: sdk/src/utils/path_utils.rs sanitize_archive_path (the write-side
sanitiser used by ResourceStore::add / archive import) and sdk/src/utils/io_utils.rs uri_to_path
(the export path mapping of Reader::to_folder).

`std::path::Path::components()` is a library model (unix semantics): a leading '/' yields RootDir;
the text is split at '/', empty segments are skipped, '.' is skipped except as the very first
component of a relative path (CurDir), '..' is ParentDir, anything else Normal(segment).
"""
import z3

import bstr
from bstr import b8, bv, uge, ule, ult, ugt
from symex import (VStr, VBool, VStruct, VVec, VEnum, VIter, VUnit, none, some, veq, opt, is_some, is_ok, ok, TAG, ite)

FILES = ["/repo/sdk/src/utils/path_utils.rs", "/repo/sdk/src/utils/io_utils.rs"]

KSEG = 6  # at most 6 '/' in a path => 7 segments


def caps(tier):
    # path = capacity for which the sanitiser's contract is decided; uri/label are chosen so that every
    # argument uri_to_path can hand to the sanitiser fits in it (uri, or label + "/" + uri)
    return dict(path=14, uri=14, label=5) if tier == "quick" else dict(path=16, uri=16, label=5)


def components_model(I, args, pc):
    """Path::components() -> iterator over Component values (compacted, order preserved)"""
    p = args[0].fields["path"].e
    segs, n = bstr.split(p, bstr.lit("/"), KSEG, I.ob(pc), "(Path::components model)")
    has_root = bstr.prefixof(bstr.lit("/"), p)
    empty_path = p.n == bv(0)
    # classify each segment
    kinds = []  # (present, tagexpr, payload)
    for i, sg in enumerate(segs):
        exists = z3.And(ult(bv(i), n), z3.Not(empty_path))
        is_empty = sg.n == bv(0)
        is_dot = bstr.eq(sg, bstr.lit("."))
        is_dotdot = bstr.eq(sg, bstr.lit(".."))
        keep_dot = z3.And(is_dot, z3.BoolVal(i == 0))  # leading "." of a relative path is CurDir
        present = z3.And(exists, z3.Not(is_empty), z3.Or(z3.Not(is_dot), keep_dot))
        tag = z3.If(is_dotdot, TAG("Component", "ParentDir"), z3.If(is_dot, TAG("Component", "CurDir"), TAG("Component", "Normal")))
        kinds.append((present, tag, sg))
    # RootDir first when the path is absolute
    items_in = [(has_root, TAG("Component", "RootDir"), bstr.lit(""))] + kinds
    # compaction: output slot j = the j-th present input
    rank = []
    r = bv(0)
    for pres, _, _ in items_in:
        rank.append(r)
        r = r + z3.If(pres, bv(1), bv(0))
    total = r
    out = []
    for j in range(len(items_in)):
        tag = TAG("Component", "CurDir")
        payload = bstr.lit("")
        for (pres, t, sg), rk in zip(items_in, rank):
            sel = z3.And(pres, rk == bv(j))
            tag = z3.If(sel, t, tag)
            payload = bstr.ite(sel, sg, payload)
        out.append(VEnum("Component", tag, {"Normal": [VStr(bstr.named(payload, I.side, "comp"))]}))
    return VIter(VVec(out, total))


def _path_new(I, args, pc):
    return VStruct("Path", {"path": args[0]})


def _osstr_to_str(I, args, pc):
    return some(args[0])


def _pathbuf_from(I, args, pc):
    return args[0]


OVERRIDES = {
    "Path::new": _path_new,
    "Path::components": components_model,
    "PathBuf::from": _pathbuf_from,
}
# TAG registry for Component variants referenced by the source
for _v in ("Normal", "CurDir", "RootDir", "Prefix", "ParentDir"):
    TAG("Component", _v)


def safe_relative(s):
    """oracle on the OUTPUT text: a relative path that cannot leave its root lexically"""
    parts, n = bstr.split(s, bstr.lit("/"), KSEG)
    conds = [ugt(s.n, bv(0)), z3.Not(bstr.prefixof(bstr.lit("/"), s)), z3.Not(bstr.contains(s, bstr.lit("\\")))]
    for i, p in enumerate(parts):
        ex = ult(bv(i), n)
        conds.append(z3.Implies(ex, z3.And(p.n != bv(0), z3.Not(bstr.eq(p, bstr.lit("."))), z3.Not(bstr.eq(p, bstr.lit(".."))))))
    return z3.And(conds)


def make_queries(tier):
    C = caps(tier)
    from props_c34 import max_occurrences

    def q_sanitize_confines(E):
        """whatever the identifier, an accepted path is a clean relative path (no '..', no root, no backslash)"""
        p = E.str("path", C["path"], "printable")
        E.assume(max_occurrences(p, "/", KSEG - 1))
        r = E.call("sanitize_archive_path", p)
        good = is_ok(r)
        out = r.payload["Ok"][0]
        E.prove("an accepted path cannot escape its root", z3.Implies(good, safe_relative(out.e)))
        E.prove("a path with a '..' component is rejected",
                z3.Implies(z3.Or(bstr.eq(p.e, bstr.lit("..")), bstr.prefixof(bstr.lit("../"), p.e), bstr.suffixof(bstr.lit("/.."), p.e),
                                 bstr.contains(p.e, bstr.lit("/../"))), z3.Not(good)))
        E.prove("an absolute path is rejected", z3.Implies(bstr.prefixof(bstr.lit("/"), p.e), z3.Not(good)))
        E.prove("the empty path is rejected", z3.Implies(p.e.n == bv(0), z3.Not(good)))
        E.prove("a backslash is rejected", z3.Implies(bstr.contains(p.e, bstr.lit("\\")), z3.Not(good)))
        E.cover("accepted path with a dropped './' and a doubled slash", z3.And(good, bstr.contains(p.e, bstr.lit("//")), bstr.prefixof(bstr.lit("./"), p.e)))
        E.cover("rejected: traversal in the middle", z3.And(z3.Not(good), bstr.contains(p.e, bstr.lit("a/../"))))

    def q_sanitize_idempotent(E):
        """sanitising an accepted path again returns it unchanged (canonical form)"""
        p = E.str("path", min(C["path"], 10), "printable")  # two symbolic executions: the smaller stated bound of this query
        E.assume(max_occurrences(p, "/", KSEG - 1))
        r = E.call("sanitize_archive_path", p)
        out = r.payload["Ok"][0]
        r2 = E.call("sanitize_archive_path", out)
        E.prove("sanitize(sanitize(p)) == sanitize(p)", z3.Implies(is_ok(r), z3.And(is_ok(r2), bstr.eq(r2.payload["Ok"][0].e, out.e))))
        E.cover("a path that changes when sanitised", z3.And(is_ok(r), z3.Not(bstr.eq(out.e, p.e))))

    def q_uri_to_path_confines(E):
        """Reader::to_folder's path mapping never yields a path that leaves the output folder.
        Assume/guarantee: inside this query sanitize_archive_path is replaced by its CONTRACT (an accepted
        result is a safe relative path -- decided for all inputs by q_sanitize_confines); the query decides
        that every accepted result of uri_to_path comes out of the sanitiser, and that the sanitiser is only
        called on arguments within the bounds for which its contract was decided."""
        u = E.str("uri", C["uri"], "printable")
        E.assume(max_occurrences(u, "/", KSEG - 2))
        lab = E.str("label", C["label"], "printable")
        E.assume(max_occurrences(lab, "/", 0))
        label = E.opt("has_label", lab)
        calls = []
        if E.mode == "symbolic":
            def contract(I, args, pc):
                arg = args[0]
                out, cons = bstr.sym("sanitized!%d" % len(calls), C["path"])
                accepted = z3.Bool("sanitizer_accepts!%d" % len(calls))
                I.side.extend(cons)
                I.side.append(z3.Implies(accepted, safe_relative(out)))
                I.side.append(z3.Implies(accepted, arg.e.n != bv(0)))  # contract: the empty path is rejected (decided by q_sanitize_confines)
                calls.append((pc, arg))
                return VEnum("Result", z3.If(accepted, TAG("Result", "Ok"), TAG("Result", "Err")), {"Ok": [VStr(out)], "Err": [VUnit()]})
            E.I.overrides["sanitize_archive_path"] = contract
        r = E.call("uri_to_path", u, label)
        out = r.payload["Ok"][0]
        E.prove("an accepted export path cannot escape the output folder", z3.Implies(is_ok(r), safe_relative(out.e)))
        for i, (g, arg) in enumerate(calls):
            E.prove("sanitiser call %d is within the bounds of its contract (length, number of '/')" % i,
                    z3.Implies(g, z3.And(ule(arg.e.n, bv(C["path"])), max_occurrences(arg, "/", KSEG - 1))))
        E.cover("a self#jumbf URI outside /c2pa/ prefixed with the manifest label",
                z3.And(is_ok(r), bstr.prefixof(bstr.lit("self#jumbf="), u.e), is_some(label)))
        E.cover("a rejected traversal", z3.And(z3.Not(is_ok(r)), bstr.contains(u.e, bstr.lit(".."))))

    qs = [q_sanitize_confines, q_uri_to_path_confines]
    if tier == "thorough":
        qs.append(q_sanitize_idempotent)
    return qs


def _u2p_args(a):
    lab = a[1]["payload"][0] if a[1]["variant"] == "Some" else None
    return [a[0], lab]


NATIVE_MAP = {"uri_to_path": ("uri_to_path", _u2p_args)}


def _c_u2p(I, args):
    return I.call("uri_to_path", [args[0], some(args[1]) if len(args) > 1 else none()])


COMPOSITES = {"@uri_to_path_l": (_c_u2p, "uri_to_path", lambda a: [a[0], a[1]]),
              "@uri_to_path_n": (_c_u2p, "uri_to_path", lambda a: [a[0], None])}

VECTORS = [("sanitize_archive_path", [p]) for p in [
    "a/b/c.txt", "./a/b", "a/./b", "../a", "a/../b", "/etc/passwd", "", ".", "./", "a\\b", "..\\..\\etc", "a//b", "a/b/", "a/b/.", "./.", "..",
    "a/..", "...", "a/.../b", ".a/.b", "a b/c", "//a", "a/.", "./..", "C:/x", "a:b/c", " ", "a/ /b", "./a/./b/./", "x/./../y"]]

VECTORS += [("@uri_to_path_l", [u, "urn:uuid:1"]) for u in [
    "self#jumbf=/c2pa/urn:uuid:123/c2pa.assertions/thumb.jpg", "self#jumbf=c2pa.assertions/x", "self#jumbf=../../x", "a:b/c", "self#jumbf=/c2pa/../x",
    "self#jumbf=", "self#jumbf=/c2pa/", "..", "self#jumbf=/etc/passwd"]] + [("@uri_to_path_n", [u]) for u in [
    "self#jumbf=c2pa.assertions/x", "self#jumbf=/abs", "plain/rel.txt", "self#jumbf=./a", ""]]

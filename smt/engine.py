"""Engine Z driver: runs *queries* (Python functions over an Env) symbolically against the source of
/repo (via astdump + symex), discharges every obligation with z3 (QF_BV), replays satisfiable
models natively against the real build, and validates the interpreter's library models by
differential execution on concrete vectors.

A query function q(E) uses:
    E.str(name, cap[, charset])  E.int(name[, max])  E.bool(name)  E.opt(name, value)
    E.assume(cond)               E.call(fn, *args)   E.prove(label, cond)   E.cover(label, cond)
In symbolic mode E.call executes the function's source symbolically; in replay mode the inputs are
the concrete values of a model and E.call runs the REAL function through /verif/smt/native.
"""
import json
import os
import subprocess
import time

import z3

import bstr
import symex
from bstr import b8, bv, uge, ule, ult, ugt
from symex import (VBool, VChar, VEnum, VInt, VStr, VStruct, VTuple, VUnit, VVec, Unsupported, none, some)

HERE = os.path.dirname(os.path.abspath(__file__))
VERIF = os.path.dirname(HERE)
ASTDUMP = os.path.join(HERE, "astdump", "target", "release", "astdump")
NATIVE_DIR = os.path.join(HERE, "native")
NATIVE_TARGET = os.path.join(VERIF, ".target", "native")
NATIVE_BIN = os.path.join(NATIVE_TARGET, "debug", "verif-native")
GUARD = "contentauth_c2pa_rs_verif"

_dump_cache = {}


def build_tools(log=None):
    """(re)build astdump and the native runner from /repo's current working tree. -> (ok, message)"""
    env = dict(os.environ)
    env["CARGO_NET_OFFLINE"] = "true"
    env.pop("RUSTUP_TOOLCHAIN", None)
    if not os.path.exists(ASTDUMP):
        p = subprocess.run(["cargo", "build", "--release", "--offline"], cwd=os.path.join(HERE, "astdump"), env=env,
                           stdout=subprocess.PIPE, stderr=subprocess.STDOUT, text=True)
        if p.returncode != 0:
            return False, "astdump build failed:\n" + p.stdout[-2000:]
    env2 = dict(env)
    flags = env2.get("RUSTFLAGS", "")
    if GUARD not in flags:
        flags = (flags + " --cfg " + GUARD).strip()
    env2["RUSTFLAGS"] = flags
    p = subprocess.run(["cargo", "build", "--offline", "--target-dir", NATIVE_TARGET], cwd=NATIVE_DIR, env=env2,
                       stdout=subprocess.PIPE, stderr=subprocess.STDOUT, text=True)
    if log:
        with open(log, "w") as f:
            f.write(p.stdout)
    if p.returncode != 0:
        return False, "native runner build failed (hook or source no longer compiles):\n" + p.stdout[-3000:]
    return True, "ok"


def dump_sources(files):
    """astdump of several source files merged into one function/const table"""
    key = tuple(files)
    if key in _dump_cache:
        return _dump_cache[key]
    fns, consts = {}, {}
    for f in files:
        out = subprocess.check_output([ASTDUMP, f], text=True)
        d = json.loads(out)
        for k, v in d["fns"].items():
            v["file"] = f
            fns[k] = v
        consts.update(d["consts"])
    d = {"fns": fns, "consts": consts}
    _dump_cache[key] = d
    return d


def native_calls(calls):
    """calls: [(fname, [json args])] -> list of {"ok": value} / {"panic": true}"""
    inp = json.dumps([{"f": f, "a": a} for f, a in calls])
    p = subprocess.run([NATIVE_BIN], input=inp, stdout=subprocess.PIPE, stderr=subprocess.PIPE, text=True, timeout=300)
    if p.returncode != 0:
        raise RuntimeError("native runner failed: " + p.stderr[-500:])
    return json.loads(p.stdout)


# ---------------------------------------------------------------------------------- value conversion
def to_v(x):
    """python/JSON value -> symex value (constants)"""
    if isinstance(x, bool):
        return VBool(x)
    if isinstance(x, int):
        return VInt(x)
    if isinstance(x, str):
        return VStr(bstr.lit(x))
    if x is None:
        return VUnit()
    if isinstance(x, list):
        return VTuple([to_v(i) for i in x])
    if isinstance(x, dict):
        if "variant" in x:
            ty = "Option" if x["variant"] in ("Some", "None") else "Result"
            pl = {x["variant"]: [to_v(i) for i in x["payload"]]} if x["payload"] else {}
            return VEnum(ty, symex.TAG(ty, x["variant"]), pl)
        return VStruct("?", {k: to_v(v) for k, v in x.items()})
    raise Unsupported("to_v %r" % (x,))


def to_json(v, model=None):
    return symex.concrete(v, model)


CHARSETS = {
    "printable": lambda c: z3.And(uge(c, b8(0x20)), ule(c, b8(0x7e))),
    "ascii": lambda c: ult(c, b8(0x80)),
    "bytes": lambda c: z3.BoolVal(True),  # arbitrary bytes (binary parsers)
    "graph": lambda c: z3.And(uge(c, b8(0x21)), ule(c, b8(0x7e))),  # printable, no space
    "lower_token": lambda c: z3.Or(z3.And(uge(c, b8(0x61)), ule(c, b8(0x7a))), z3.And(uge(c, b8(0x30)), ule(c, b8(0x39))), c == b8(0x2d)),
}


class Obligation:
    def __init__(self, kind, label, cond):
        self.kind, self.label, self.cond = kind, label, cond
        self.status = None
        self.time = 0.0
        self.detail = None


class Env:
    def __init__(self, files, mode="symbolic", model_inputs=None, K=6, N=24, native_map=None, lits=None, overrides=None):
        self.mode = mode
        self.files = files
        self.inputs = {}  # name -> (kind, V)
        self.model_inputs = model_inputs or {}
        self.assumes = []
        self.obls = []
        self.native_map = native_map or {}
        self.native_log = []
        self.native_panicked = False
        self.lits = lits or {}
        if mode == "symbolic":
            self.I = symex.Interp(dump_sources(files), split_bound=K, len_bound=N, lits=lits)
            for k, fn in (overrides or {}).items():
                if k.startswith("parse:"):
                    self.I.parse_models[k[6:]] = fn
                else:
                    self.I.overrides[k] = fn
        else:
            self.I = None

    # ---- inputs
    def str(self, name, cap, charset="printable", min_len=0):
        if self.mode == "replay":
            raw = self.model_inputs[name]
            if isinstance(raw, str) and charset == "bytes":
                raw = raw.encode("latin-1")  # one char per byte (models of binary inputs), not UTF-8
            v = VStr(bstr.lit(raw))
            self.inputs[name] = ("str", v)
            return v
        s, cons = bstr.sym(name, cap)
        self.assumes.extend(cons)
        self.assumes.append(bstr.all_bytes(s, CHARSETS[charset]))
        if min_len:
            self.assumes.append(uge(s.n, bv(min_len)))
        v = VStr(s)
        self.inputs[name] = ("str", v)
        return v

    def int(self, name, maxv=2 ** 64 - 1):
        if self.mode == "replay":
            v = VInt(self.model_inputs[name])
        else:
            x = z3.BitVec(name, bstr.W)
            self.assumes.append(ule(x, bv(maxv)))
            v = VInt(x, maxval=maxv)
        self.inputs[name] = ("int", v)
        return v

    def bool(self, name):
        if self.mode == "replay":
            v = VBool(self.model_inputs[name])
        else:
            v = VBool(z3.Bool(name))
        self.inputs[name] = ("bool", v)
        return v

    def opt(self, name, value):
        """Option<value> whose presence is the symbolic bool `name`"""
        p = self.bool(name)
        return symex.opt(p.e, value)

    # ---- constraints / obligations
    def assume(self, cond):
        self.assumes.append(cond if z3.is_expr(cond) else z3.BoolVal(bool(cond)))

    def prove(self, label, cond):
        self.obls.append(Obligation("prove", label, cond))

    def cover(self, label, cond):
        self.obls.append(Obligation("cover", label, cond))

    # ---- calls
    def call(self, fn, *args):
        if self.mode == "symbolic":
            if fn.startswith("display:"):
                return self.I.name_value(self.I.display_struct(args[0]))
            return self.I.call(fn, list(args))
        name, conv = self.native_map.get(fn, (fn, None))
        jargs = conv([to_json(a) for a in args]) if conv else [to_json(a) for a in args]
        r = native_calls([(name, jargs)])[0]
        self.native_log.append({"f": name, "a": jargs, "r": r})
        if "panic" in r:
            self.native_panicked = True
            raise NativePanic(name, jargs)
        return to_v(r["ok"])


def _env_native(self, name, jargs):
    """replay mode only: call a native-runner function directly, returning its JSON value"""
    r = native_calls([(name, jargs)])[0]
    self.native_log.append({"f": name, "a": jargs, "r": r})
    if "panic" in r:
        self.native_panicked = True
        raise NativePanic(name, jargs)
    return r["ok"]


Env.native = _env_native


class NativePanic(Exception):
    pass


def model_inputs(E, model):
    out = {}
    for name, (kind, v) in E.inputs.items():
        if kind == "custom":
            out[name] = v(model)
        else:
            out[name] = symex.concrete(v, model)
    return out


def _input_eqs(E, model):
    """equalities fixing every symbolic input to its value in `model` (used to ask for a different counterexample)"""
    eqs = []
    for name, (kind, v) in E.inputs.items():
        try:
            if kind == "str":
                n = model.eval(v.e.n, model_completion=True)
                eqs.append(v.e.n == n)
                for i in range(min(n.as_long(), v.e.cap)):
                    eqs.append(v.e.b[i] == model.eval(v.e.b[i], model_completion=True))
            elif kind in ("int", "bool"):
                eqs.append(v.e == model.eval(v.e, model_completion=True))
        except Exception:  # noqa: BLE001
            continue
    return eqs or [z3.BoolVal(True)]


def solve_query(qfn, files, tier, K=6, N=24, timeout_ms=120000, native_map=None, lits=None, overrides=None, log=None, logic="QF_BV"):
    """Run one query symbolically and discharge its obligations.
    Returns dict(result=PASS|FAIL|INCONCLUSIVE, obligations=[...], ...)"""
    t0 = time.time()
    res = {"query": qfn.__name__, "doc": (qfn.__doc__ or "").strip(), "obligations": [], "result": "PASS", "reason": "",
           "counterexamples": []}
    try:
        E = Env(files, "symbolic", K=K, N=N, native_map=native_map, lits=lits, overrides=overrides)
        qfn(E)
    except Unsupported as ex:
        res.update(result="INCONCLUSIVE", reason="source construct not handled by the encoder: %s" % ex, wall_s=round(time.time() - t0, 2))
        return res
    I = E.I
    res["symex_s"] = round(time.time() - t0, 2)
    res["functions"] = sorted(I.fns_executed)
    res["models"] = sorted(I.models_used)
    res["inputs"] = {n: k for n, (k, _) in E.inputs.items()}
    obls = list(E.obls)
    for g, msg in I.panics:
        obls.append(Obligation("panic", msg, g))
    for g, msg in I.unwinds:
        obls.append(Obligation("unwind", msg, g))
    s = z3.SolverFor("QF_BV") if logic == "QF_BV" else z3.Solver()
    s.set("timeout", timeout_ms)
    s.add(E.assumes)
    s.add(I.side)
    solver_time = 0.0
    # the assumptions themselves must be satisfiable (vacuity)
    t = time.time()
    r0 = s.check()
    solver_time += time.time() - t
    if r0 != z3.sat:
        res.update(result="INCONCLUSIVE", reason="assumptions unsatisfiable or undecided (%s): vacuous query" % r0)
    # Batch the (usually many) panic and unwinding obligations: if the disjunction of all guards of a kind is
    # unsatisfiable they are all discharged by ONE solver call; otherwise fall back to one call each.
    batched = {}
    for kind in ("panic", "unwind"):
        group = [ob for ob in obls if ob.kind == kind]
        if len(group) > 3:
            s.push()
            s.add(z3.Or([ob.cond for ob in group]))
            t = time.time()
            rb = s.check()
            dt = time.time() - t
            solver_time += dt
            s.pop()
            if rb == z3.unsat:
                for ob in group:
                    batched[id(ob)] = round(dt / len(group), 4)
    for ob in obls:
        if id(ob) in batched:
            res["obligations"].append({"kind": ob.kind, "label": ob.label, "solver": "unsat (batched)", "time_s": batched[id(ob)], "status": "DISCHARGED"})
            continue
        s.push()
        if ob.kind == "prove":
            s.add(z3.Not(ob.cond))
        else:
            s.add(ob.cond)
        t = time.time()
        r = s.check()
        ob.time = round(time.time() - t, 3)
        solver_time += ob.time
        entry = {"kind": ob.kind, "label": ob.label, "solver": str(r), "time_s": ob.time}
        if ob.kind == "cover":
            if r == z3.sat:
                entry["status"] = "SATISFIED"
                entry["witness"] = model_inputs(E, s.model())
            else:
                entry["status"] = "UNSATISFIED" if r == z3.unsat else "UNKNOWN"
                if res["result"] == "PASS":
                    res.update(result="INCONCLUSIVE", reason="vacuity guard: cover '%s' is %s" % (ob.label, entry["status"]))
        elif r == z3.unsat:
            entry["status"] = "DISCHARGED"
        elif r == z3.sat:
            mi = model_inputs(E, s.model())
            entry["model"] = mi
            if ob.kind == "unwind":
                entry["status"] = "BOUND-TOO-SMALL"
                if res["result"] == "PASS":
                    res.update(result="INCONCLUSIVE", reason="unwinding obligation satisfiable (bound too small): %s" % ob.label)
            else:
                entry["status"] = "COUNTEREXAMPLE"
                # a few further, different models of the same violated obligation: if the first one does not replay on the real
                # code (a model/stub looser than reality), the others are tried before the run is declared inconclusive
                alts = []
                try:
                    cur = s.model()
                    s.push()
                    s.set("timeout", 60000)
                    for _ in range(4):
                        s.add(z3.Not(z3.And(_input_eqs(E, cur))))
                        if s.check() != z3.sat:
                            break
                        cur = s.model()
                        alts.append(model_inputs(E, cur))
                except Exception:  # noqa: BLE001
                    pass
                finally:
                    s.set("timeout", timeout_ms)
                    s.pop()
                res["counterexamples"].append({"obligation": ob.label, "kind": ob.kind, "inputs": mi, "alternates": alts})
                res["result"] = "FAIL"
                res["reason"] = "%s: %s" % (ob.kind, ob.label)
        else:
            entry["status"] = "UNKNOWN"
            if res["result"] == "PASS":
                res.update(result="INCONCLUSIVE", reason="solver returned unknown/time-out for: %s" % ob.label)
        res["obligations"].append(entry)
        s.pop()
    res["solver_time_s"] = round(solver_time, 3)
    res["wall_s"] = round(time.time() - t0, 2)
    res["smt_assertions"] = len(E.assumes) + len(I.side)
    return res


def replay_counterexample(qfn, files, inputs, obligation_label, kind, native_map=None, lits=None):
    """Run the query with concrete inputs against the REAL functions. -> (reproduced, detail)"""
    E = Env(files, "replay", model_inputs=inputs, native_map=native_map, lits=lits)
    E.replay_labels = [obligation_label]
    try:
        qfn(E)
    except NativePanic as ex:
        # a panic of the real code reproduces a panic obligation; for any other obligation it is reported as not reproduced
        # (exit 2) so that a failing set-up step of the native scenario can never be taken for a violation
        return kind == "panic", {"native": E.native_log, "note": "real function panicked"}
    except KeyError as ex:
        return False, {"note": "model lacks input %s" % ex}
    # assumptions must hold on the concrete inputs
    for a in E.assumes:
        if z3.is_false(z3.simplify(a)):
            return False, {"native": E.native_log, "note": "model violates an assumption natively (encoder/solver disagreement)"}
    if kind == "panic":
        return False, {"native": E.native_log, "note": "real function did not panic on the solver's input"}
    for ob in E.obls:
        if ob.kind == "prove" and ob.label == obligation_label:
            v = z3.simplify(ob.cond)
            if z3.is_false(v):
                return True, {"native": E.native_log}
            return False, {"native": E.native_log, "note": "obligation holds on the real code for the solver's input (evaluates to %s)" % v}
    return False, {"native": E.native_log, "note": "obligation not reached in replay"}


def differential(files, vectors, native_map=None, K=6, N=24, lits=None, overrides=None, composites=None):
    """vectors: [(fn, [python args])]; compares interpreter(concrete) with the real function.
    -> (n_checked, mismatches list)"""
    calls = []
    mine = []
    for fn, args in vectors:
        I = symex.Interp(dump_sources(files), split_bound=K, len_bound=N, lits=lits)
        for k, f in (overrides or {}).items():
            if k.startswith("parse:"):
                I.parse_models[k[6:]] = f
            else:
                I.overrides[k] = f
        try:
            if fn.startswith("@"):
                I.raw_args = list(args)  # the python values (binary inputs are latin-1 strings, not UTF-8 text)
                r = composites[fn][0](I, [to_v(a) for a in args])
            else:
                r = I.call(fn, [to_v(a) for a in args])
            if any(not z3.is_false(z3.simplify(g)) for g, _ in I.unwinds):
                mine.append(("bound", None))
            elif any(z3.is_true(z3.simplify(g)) for g, _ in I.panics):
                mine.append(("panic", None))
            else:
                mine.append(("ok", symex.concrete(r)))
        except Unsupported as ex:
            mine.append(("unsupported", str(ex)))
        if fn.startswith("@"):
            name, conv = composites[fn][1], (composites[fn][2] if len(composites[fn]) > 2 else None)
        else:
            name, conv = (native_map or {}).get(fn, (fn, None))
        calls.append((name, conv(list(args)) if conv else list(args)))
    real = native_calls(calls)
    mism = []
    n = 0
    for (fn, args), m, r in zip(vectors, mine, real):
        if m[0] == "bound":
            continue
        n += 1
        if m[0] == "unsupported":
            mism.append({"fn": fn, "args": args, "encoder": "unsupported: " + m[1], "real": r})
        elif m[0] == "panic":
            if "panic" not in r:
                mism.append({"fn": fn, "args": args, "encoder": "panic", "real": r})
        elif "panic" in r:
            mism.append({"fn": fn, "args": args, "encoder": m[1], "real": "panic"})
        elif isinstance(r["ok"], dict) and ("uri_error" in r["ok"] or "header_error" in r["ok"] or "setup_error" in r["ok"]):
            n -= 1  # the real URI/header parser rejected the text: vector not comparable
        elif not same(m[1], r["ok"]):
            mism.append({"fn": fn, "args": args, "encoder": m[1], "real": r["ok"]})
    return n, mism


def same(a, b):
    if isinstance(a, dict) and isinstance(b, dict):
        if "variant" in a or "variant" in b:
            if a.get("variant") == "Err" and b.get("variant") == "Err":
                return True  # error payloads (messages) are not modelled
            return a.get("variant") == b.get("variant") and same(a.get("payload", []), b.get("payload", []))
        return set(a) == set(b) and all(same(a[k], b[k]) for k in a)
    if isinstance(a, (list, tuple)) and isinstance(b, (list, tuple)):
        return len(a) == len(b) and all(same(x, y) for x, y in zip(a, b))
    return a == b

"""C23 (kernels) -- cancellation is always reported as cancellation; progress steps are well formed.
Sources executed symbolically: sdk/src/context.rs Context::check_progress (the checkpoint every
operation calls) and sdk/src/utils/hash_utils.rs hash_stream_by_alg_with_progress_impl (the
hashing loops, where steps are computed numerically and the callback's error must propagate).
The dozens of call sites in Store/Claim that forward the checkpoint's error are outside.
"""
import z3

import bstr
from bstr import bv, b8, ult, ule, ugt, uge
from symex import (VStr, VInt, VBool, VStruct, VVec, VEnum, VUnit, VPyFn, none, some, opt, is_ok, ok, err, TAG)
import props_c13

FILES = ["/repo/sdk/src/context.rs", "/repo/sdk/src/utils/hash_utils.rs"]

OVERRIDES = dict(props_c13.OVERRIDES)
OVERRIDES["AtomicBool::load"] = lambda I, a, pc: a[0].fields["v"]
for _v in ("OperationCancelled",):
    TAG("Error", _v)


def caps(tier):
    return dict(data=4) if tier == "quick" else dict(data=6)


def cancelled():
    return VEnum("Error", TAG("Error", "OperationCancelled"), {})


def make_queries(tier):
    C = caps(tier)

    def q_checkpoint(E):
        """Context::check_progress returns the cancellation error exactly when the callback says stop or the flag is set"""
        has_cb, cb_ret, flag = E.bool("callback_installed"), E.bool("callback_returns"), E.bool("cancel_flag")
        if E.mode != "symbolic":
            mi = E.model_inputs
            r = E.native("check_progress", [mi["callback_installed"], mi["callback_returns"], mi["cancel_flag"], mi.get("step", 1), mi.get("total", 1)])
            stop = (mi["callback_installed"] and not mi["callback_returns"]) or mi["cancel_flag"]
            E.prove("stop requested => the checkpoint fails", z3.BoolVal((not stop) or not r["ok"]))
            E.prove("the failure is the cancellation error, nothing else", z3.BoolVal(r["ok"] or r["cancelled"]))
            E.prove("no stop requested => the checkpoint succeeds", z3.BoolVal(stop or r["ok"]))
            E.prove("an installed callback is consulted", z3.BoolVal((not mi["callback_installed"]) or r["called"]))
            return
        calls = []

        def cb(I, args, pc):
            calls.append(pc)
            return cb_ret
        ctx = VStruct("Context", {"progress_callback": opt(has_cb.e, VPyFn(cb)), "cancel_flag": VStruct("AtomicBool", {"v": flag})})
        step, total = E.int("step", 2 ** 32 - 1), E.int("total", 2 ** 32 - 1)
        r = E.call("Context::check_progress", ctx, VEnum("ProgressPhase", TAG("ProgressPhase", "Hashing"), {}), step, total)
        stop = z3.Or(z3.And(has_cb.e, z3.Not(cb_ret.e)), flag.e)
        e0 = r.payload["Err"][0]
        E.prove("stop requested => the checkpoint fails", z3.Implies(stop, z3.Not(is_ok(r))))
        E.prove("the failure is the cancellation error, nothing else", z3.Implies(z3.Not(is_ok(r)), e0.tag == TAG("Error", "OperationCancelled")))
        E.prove("no stop requested => the checkpoint succeeds", z3.Implies(z3.Not(stop), is_ok(r)))
        E.prove("an installed callback is consulted", z3.Implies(has_cb.e, z3.Or(calls) if calls else z3.BoolVal(False)))
        E.cover("cancelled by flag with a callback that said continue", z3.And(has_cb.e, cb_ret.e, flag.e))
        E.cover("continues", is_ok(r))

    def mk_hash(exclusion, wasm):
        def q(E):
            if E.mode != "symbolic":
                mi = E.model_inputs
                k = mi["cancel_at_call"]
                r = E.native("hash_cancel", [mi["data"], [[mi["start"], mi["length"]]], exclusion, mi["max_hash_buf"], k])
                steps = r["steps"]
                stopped = len(steps) > k
                E.prove("if the callback stops the operation, hashing does not succeed", z3.BoolVal((not stopped) or not r["ok"]))
                E.prove("and the error is the callback's cancellation error, unchanged", z3.BoolVal((not stopped) or r["cancelled"]))
                okk = (len(steps) <= k + 1) and all(st == i + 1 and st <= tot and tot > 0 for i, (st, tot) in enumerate(steps))
                # every per-site obligation of the symbolic run maps onto this whole-run predicate
                for lbl in E.replay_labels:
                    if lbl.startswith("no checkpoint") or lbl.startswith("site "):
                        E.prove(lbl, z3.BoolVal(okk))
                return
            I = E.I
            I.cfg_values['target_arch="wasm32"'] = wasm
            I.buffer_cap = C["data"]
            I.loop_bound = C["data"] + 1
            data = E.str("data", C["data"], "ascii", min_len=1)
            s, l = E.int("start"), E.int("length")
            E.assume(z3.And(z3.BVAddNoOverflow(s.e, l.e, False), ule(s.e + l.e, data.e.n)))
            hr = VVec([VStruct("HashRange", {"start": s, "length": l, "bmff_offset": none()})])
            maxbuf = E.int("max_hash_buf", C["data"])
            E.assume(uge(maxbuf.e, bv(1)))
            k = E.int("cancel_at_call", 7)
            events = []

            def dyn_index(upto):
                """number of checkpoints reached before event `upto` (events are code sites of the unrolled loops)"""
                c = bv(0)
                for g, _, _ in events[:upto]:
                    c = c + z3.If(g, bv(1), bv(0))
                return c

            def progress(I_, args, pc):
                idx = len(events)
                stop = k.e == dyn_index(idx)
                events.append((pc, args[0].e, args[1].e))
                return VEnum("Result", z3.If(stop, TAG("Result", "Err"), TAG("Result", "Ok")), {"Ok": [VUnit()], "Err": [cancelled()]})
            stream = VStruct("Stream", {"bytes": data, "pos": VInt(0)})
            res = I.call("hash_stream_by_alg_with_progress_impl",
                         [VStr(bstr.lit("sha256")), stream, some(hr), VBool(exclusion), VPyFn(progress), maxbuf])
            ncalls = len(events)
            reached = [g for g, _, _ in events]
            said_stop = [z3.And(reached[i], k.e == dyn_index(i)) for i in range(ncalls)]
            stopped = z3.Or(said_stop or [z3.BoolVal(False)])
            E.prove("if the callback stops the operation, hashing does not succeed", z3.Implies(stopped, z3.Not(is_ok(res))))
            e0 = res.payload["Err"][0]
            E.prove("and the error is the callback's cancellation error, unchanged",
                    z3.Implies(stopped, z3.And(z3.Not(is_ok(res)), e0.tag == TAG("Error", "OperationCancelled"))))
            for i in range(ncalls):
                E.prove("no checkpoint is reached after the one that said stop (site %d)" % i,
                        z3.Implies(reached[i], z3.Not(z3.Or(said_stop[:i] or [z3.BoolVal(False)]))))
                g, st, tot = events[i]
                E.prove("site %d: steps are positive, within a non-zero total, and increase by one" % i,
                        z3.Implies(g, z3.And(st == dyn_index(i) + bv(1), ule(st, tot), ugt(tot, bv(0)))))
            total_calls = dyn_index(ncalls)
            E.cover("cancelled at the third checkpoint of a multi-chunk range", z3.And(stopped, k.e == bv(2)))
            E.cover("runs to completion when never stopped", z3.And(is_ok(res), uge(k.e, total_calls)))
        q.__name__ = "q_hash_cancel_%s_%s" % ("excl" if exclusion else "incl", "seq" if wasm else "pipe")
        q.__doc__ = "cancellation at the k-th progress checkpoint of the hashing loops (%s ranges, %s branch)" % (
            "exclusion" if exclusion else "inclusion", "sequential" if wasm else "read-ahead pipeline")
        return q

    return [q_checkpoint] + [mk_hash(ex, w) for ex in (True, False) for w in (True, False)]


def replay_unsupported(E):
    raise Exception("no native replay for C23 kernels")


NATIVE_MAP = {}
VECTORS = []

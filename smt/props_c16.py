"""C16 -- Merkle proofs accept exactly the committed leaves.
Sources executed symbolically: sdk/src/utils/merkle.rs (C2PAMerkleTree::from_leaves, generate_tree,
get_proof_by_index, to_layout) and sdk/src/assertions/bmff_hash.rs (MerkleMap::check_merkle_tree,
hash_check).

Hash values are terms of an algebraic datatype  Hash = leaf(id) | node(l, r): `concat_and_hash(a, b)`
is the constructor node(a, b), so equality of hashes is structural -- the idealised (collision-free,
domain-separated) hash.  Leaf VALUES, the candidate value, every element of an adversarial proof and
the leaf INDEX are symbolic; the number of leaves and the number of proof levels are enumerated
(they shape the loops), exactly as the property's own quantifier does.
"""
import z3

import bstr
from bstr import bv, b8, ult, ule, ugt, uge
from symex import VOpaque, VInt, VBool, VStruct, VVec, VEnum, VUnit, none, some, veq, opt, is_some, is_ok, ok, TAG

FILES = ["/repo/sdk/src/utils/merkle.rs", "/repo/sdk/src/assertions/bmff_hash.rs"]
LOGIC = "ALL"

_H = z3.Datatype("Hash")
_H.declare("leaf", ("id", z3.BitVecSort(16)))
_H.declare("node", ("l", _H), ("r", _H))
Hash = _H.create()


def caps(tier):
    return dict(max_leaves=6, adv_proof=3) if tier == "quick" else dict(max_leaves=16, adv_proof=4)


def _concat_and_hash(I, args, pc):
    left, right = args[1], args[2]
    if not (isinstance(right, VEnum) and right.ty == "Option"):
        raise Exception("concat_and_hash: unexpected right operand")
    r = right.payload.get("Some")
    if r is None:
        return VOpaque(Hash.node(left.e, left.e))
    return VOpaque(z3.If(is_some(right), Hash.node(left.e, r[0].e), left.e))


def _vec_compare(I, args, pc):
    return VBool(args[0].e == args[1].e)


OVERRIDES = {
    "concat_and_hash": _concat_and_hash,
    "vec_compare": _vec_compare,
}


def tree_and_map(E, n, max_proofs):
    """leaves l_0..l_{n-1} symbolic; returns (leaves, tree struct, MerkleMap struct)"""
    if E.mode == "symbolic":
        leaves = [VOpaque(z3.Const("leaf%d" % i, Hash)) for i in range(n)]
    else:
        leaves = [VOpaque(Hash.leaf(z3.BitVecVal(i, 16))) for i in range(n)]
    nodes = VVec([VStruct("MerkleNode", {"0": l}) for l in leaves])
    tree = E.I.call("C2PAMerkleTree::from_leaves", [nodes, VOpaque(z3.IntVal(0)), VBool(False)])
    layers = tree.fields["layers"]
    nl = bstr.cval(layers.n)
    row = min(max_proofs, nl - 1)
    hashes = VVec([x.fields["0"] for x in layers.items[row].items[:bstr.cval(layers.items[row].n)]])
    mm = VStruct("MerkleMap", {"count": VInt(n), "hashes": hashes})
    return leaves, tree, mm, nl


def make_queries(tier):
    C = caps(tier)
    qs = []

    def mk(n, m):
        def q(E):
            if E.mode != "symbolic":
                return replay(E, n, m)
            leaves, tree, mm, nl = tree_and_map(E, n, m)
            loc = E.int("location", n - 1)
            # the proof the SDK generates for this leaf
            pr = E.I.call("C2PAMerkleTree::get_proof_by_index", [tree, loc, VInt(m)])
            proof = pr.payload["Ok"][0]
            leaf_at = E.I.vec_get(VVec(leaves), loc.e)
            # the SDK stores the proof only when it is non-empty
            proof_opt = opt(ugt(proof.n, bv(0)), proof)
            okv = E.I.call("MerkleMap::check_merkle_tree", [mm, VOpaque(z3.IntVal(0)), leaf_at, loc, proof_opt])
            E.prove("proof generation succeeds for every leaf", is_ok(pr))
            E.prove("the generated proof verifies at the leaf's index", okv.e)
            # adversary: any candidate value, any proof of up to adv_proof arbitrary hashes, at this index
            cand = VOpaque(z3.Const("candidate", Hash))
            # leaf-level values are digests of DATA: in the idealised hash they are leaf(.) terms and can never equal
            # the digest node(l, r) of two digests (second-preimage resistance); proof elements are arbitrary
            E.assume(Hash.is_leaf(cand.e))
            for l in leaves:
                E.assume(Hash.is_leaf(l.e))
            adv_len = E.int("adv_len", C["adv_proof"])
            adv = VVec([VOpaque(z3.Const("adv%d" % i, Hash)) for i in range(C["adv_proof"])], adv_len.e)
            E.inputs["leaf_terms"] = ("custom", lambda mo: [term_json(mo.eval(l.e, model_completion=True)) for l in leaves])
            E.inputs["candidate_term"] = ("custom", lambda mo: term_json(mo.eval(cand.e, model_completion=True)))
            E.inputs["adv_terms"] = ("custom", lambda mo: [term_json(mo.eval(a.e, model_completion=True)) for a in adv.items][:mo.eval(adv_len.e, model_completion=True).as_long()])
            use_none = E.bool("adv_proof_absent")
            adv_opt = opt(z3.Not(use_none.e), adv)
            acc = E.I.call("MerkleMap::check_merkle_tree", [mm, VOpaque(z3.IntVal(0)), cand, loc, adv_opt])
            E.prove("only the committed leaf value verifies at this index (any proof)", z3.Implies(acc.e, cand.e == leaf_at.e))
            # out-of-range index is never accepted
            bad = E.I.call("MerkleMap::check_merkle_tree", [mm, VOpaque(z3.IntVal(0)), cand, VInt(n), adv_opt])
            E.prove("an index beyond the leaf count is rejected", z3.Not(bad.e))
            E.cover("last leaf (odd-node promotion path when n is odd)", loc.e == bv(n - 1))
            E.cover("an adversarial proof that is accepted exists (it must carry the committed leaf)", acc.e)
        q.__name__ = "q_tree_n%d_p%d" % (n, m)
        q.__doc__ = "Merkle tree of %d leaves, max_proofs=%d (stored row = min(max_proofs, layers-1)): generated proofs verify; nothing else does" % (n, m)
        return q

    import math
    for n in range(1, C["max_leaves"] + 1):
        nl = 1 + (math.ceil(math.log2(n)) if n > 1 else 0)
        ms = sorted({0, 1, nl - 1, nl + 1}) if tier == "quick" else list(range(0, nl + 2))
        for m in ms:
            if m < 0:
                continue
            qs.append(mk(n, m))
    if tier == "quick":
        # keep the quick tier small: all leaf counts, but only the rows {leaf row, root row}
        keep = []
        for q in qs:
            n = int(q.__name__.split("_n")[1].split("_")[0])
            m = int(q.__name__.split("_p")[1])
            nl = 1 + (math.ceil(math.log2(n)) if n > 1 else 0)
            if m in (0, nl - 1) or (n in (3, 5) and m == 1):
                keep.append(q)
        qs = keep
    return qs


def term_json(t):
    t = z3.simplify(t)
    if t.decl().name() == "leaf":
        return {"leaf": t.arg(0).as_long()}
    if t.decl().name() == "node":
        return {"node": [term_json(t.arg(0)), term_json(t.arg(1))]}
    raise Exception("unexpected hash term %s" % t)


def replay(E, n, m):
    """native replay: instantiate leaf i := leaf(i) and run the real tree/proof/check code"""
    mi = E.model_inputs
    loc = mi.get("location", 0)
    cand = mi.get("candidate_term", {"leaf": loc})
    adv = mi.get("adv_terms")
    lt = mi.get("leaf_terms")
    r = E.native("merkle_scenario", [n, m, loc, cand, adv, bool(mi.get("adv_proof_absent", False)), lt])
    E.prove("proof generation succeeds for every leaf", z3.BoolVal(bool(r["generated_ok"])))
    E.prove("the generated proof verifies at the leaf's index", z3.BoolVal(bool(r["own_leaf_verifies"])))
    E.prove("only the committed leaf value verifies at this index (any proof)",
            z3.BoolVal((not r["candidate_verifies"]) or r["candidate_is_leaf"]))
    r2 = E.native("merkle_scenario", [n, m, n, cand, adv, bool(mi.get("adv_proof_absent", False)), lt])
    E.prove("an index beyond the leaf count is rejected", z3.BoolVal(not r2["candidate_verifies"]))


NATIVE_MAP = {}
VECTORS = []

"""C07 (PNG kernel) -- embedding round trip: write, read, replace and remove manifest stores.
See png_rw.py for the kernel, the input description and the models.

For every valid PNG in the bound (with or without an existing manifest chunk anywhere in it) and every
store byte string in the bound:
  * write_cai succeeds and read_cai on its output returns exactly the store bytes (read_cai itself refuses a
    file with more than one caBX chunk, so this also says exactly one store is present: writing REPLACES);
  * remove_cai_store_from_stream succeeds, its output has no manifest and is still accepted by the chunk scanner.
"""
import z3

import bstr
from bstr import BStr, bv, b8, ult, ule, ugt, uge
from symex import VStr, VInt, VBool, VStruct, VVec, VEnum, VUnit, is_ok, ok, TAG
import png_rw as K

FILES = K.FILES
OVERRIDES = K.OVERRIDES


def caps(tier):
    return dict(rest=50, store=3, long_store=16) if tier == "quick" else dict(rest=54, store=4, long_store=40)


def make_queries(tier):
    C = caps(tier)
    NCH = C["rest"] // 12

    def q_png_write_then_read(E):
        """write_cai on every valid PNG (with or without an existing caBX) then read_cai: exactly the written store comes back"""
        data, rest = K.png_input(E, C["rest"])
        store = E.str("store", C["store"], "bytes")
        if E.mode != "symbolic":
            w = E.native("png_write", [K_json(data), K_json(store)])
            r = E.native("png_read", [w["out"]]) if w["ok"] else {"ok": False, "store": ""}
            E.prove("writing a store into a valid PNG succeeds", z3.BoolVal(bool(w["ok"])))
            E.prove("reading back returns exactly the written store (and exactly one store is present)",
                    z3.BoolVal((not w["ok"]) or (r["ok"] and r["store"] == K_json(store))))
            return
        I = E.I
        I.loop_bound = NCH + 2
        valid, st, ncabx = K.valid_png(data.e, NCH)
        E.assume(valid)
        wr, out = K.run_write(E, data, store)
        rd = K.run_read(E, out)
        got = rd.payload["Ok"][0] if rd.payload.get("Ok") else VStr(bstr.lit(""))
        E.prove("writing a store into a valid PNG succeeds", is_ok(wr))
        E.prove("reading back returns exactly the written store (and exactly one store is present)",
                z3.Implies(is_ok(wr), z3.And(is_ok(rd), bstr.eq(got.e, store.e))))
        E.cover("asset that already carried a manifest (replace)", z3.And(is_ok(wr), ncabx == bv(1)))
        E.cover("asset without manifest", z3.And(is_ok(wr), ncabx == bv(0)))
        E.cover("existing manifest after a later chunk", z3.And(is_ok(wr), st[2]["here"], st[2]["is_cabx"]))
        E.cover("empty store", z3.And(is_ok(wr), store.e.n == bv(0)))

    def q_png_remove(E):
        """remove_cai_store_from_stream on every valid PNG: succeeds, leaves no manifest, output still scans"""
        data, rest = K.png_input(E, C["rest"])
        if E.mode != "symbolic":
            w = E.native("png_remove", [K_json(data)])
            r = E.native("png_read", [w["out"]]) if w["ok"] else {"ok": True}
            b = E.native("png_box_map", [w["out"]]) if w["ok"] else {"variant": "Err"}
            E.prove("removing the manifest from a valid PNG succeeds", z3.BoolVal(bool(w["ok"])))
            E.prove("after removal no manifest is found", z3.BoolVal((not w["ok"]) or not r["ok"]))
            E.prove("after removal the asset is still accepted by the chunk scanner", z3.BoolVal((not w["ok"]) or b.get("variant") == "Ok"))
            return
        I = E.I
        I.loop_bound = NCH + 2
        valid, st, ncabx = K.valid_png(data.e, NCH)
        E.assume(valid)
        rm, out = K.run_remove(E, data)
        rd = K.run_read(E, out)
        ps = K.run_positions(E, out)
        E.prove("removing the manifest from a valid PNG succeeds", is_ok(rm))
        E.prove("after removal no manifest is found", z3.Implies(is_ok(rm), z3.Not(is_ok(rd))))
        E.prove("after removal the asset is still accepted by the chunk scanner", z3.Implies(is_ok(rm), is_ok(ps)))
        E.cover("a manifest was removed", z3.And(is_ok(rm), ncabx == bv(1)))
        E.cover("nothing to remove", z3.And(is_ok(rm), ncabx == bv(0)))

    def q_png_store_content_roundtrip(E):
        """longer stores with arbitrary content on a small asset: the bytes read back are exactly the bytes written"""
        data, rest = K.png_input(E, 28)
        store = E.str("store", C["long_store"], "bytes")
        if E.mode != "symbolic":
            w = E.native("png_write", [K_json(data), K_json(store)])
            r = E.native("png_read", [w["out"]]) if w["ok"] else {"ok": False, "store": ""}
            E.prove("writing a store into a valid PNG succeeds", z3.BoolVal(bool(w["ok"])))
            E.prove("reading back returns exactly the written store (and exactly one store is present)",
                    z3.BoolVal((not w["ok"]) or (r["ok"] and r["store"] == K_json(store))))
            return
        I = E.I
        I.loop_bound = 5
        I.buffer_cap = C["long_store"] + 2
        valid, st, ncabx = K.valid_png(data.e, 2)
        E.assume(valid)
        wr, out = K.run_write(E, data, store)
        rd = K.run_read(E, out)
        got = rd.payload["Ok"][0] if rd.payload.get("Ok") else VStr(bstr.lit(""))
        E.prove("writing a store into a valid PNG succeeds", is_ok(wr))
        E.prove("reading back returns exactly the written store (and exactly one store is present)",
                z3.Implies(is_ok(wr), z3.And(is_ok(rd), bstr.eq(got.e, store.e))))
        E.cover("a store of at least 12 bytes", z3.And(is_ok(wr), uge(store.e.n, bv(12))))

    return [q_png_write_then_read, q_png_remove, q_png_store_content_roundtrip]


def K_json(v):
    import symex
    return symex.concrete(v)


def _png(chunks):
    out = K.SIG
    for name, data in chunks:
        out += len(data).to_bytes(4, "big") + name + data + b"\x01\x02\x03\x04"
    return out.decode("latin-1")


# encoder validation: the real handler vs the interpreter (+ models) on concrete PNGs
def _comp_write_read(I, args):
    import symex
    data, store = args
    I.loop_bound = 8

    class _E:  # minimal stand-in for the query environment
        pass
    e = _E()
    e.I = I
    d = VStr(bstr.lit(I.raw_args[0].encode("latin-1")))
    s = VStr(bstr.lit(I.raw_args[1].encode("latin-1")))
    wr, out = K.run_write(e, d, s)
    okw = z3.is_true(z3.simplify(is_ok(wr)))
    if not okw:
        return VStruct("?", {"ok": VBool(False), "out": VStr(bstr.lit(""))})
    # CRC bytes are unconstrained in the model: compare everything but the 4 CRC bytes of the new chunk through read-back
    rd = K.run_read(e, out)
    return VStruct("?", {"ok": VBool(True), "read_ok": VBool(z3.simplify(is_ok(rd))), "store": rd.payload["Ok"][0], "len": VInt(z3.simplify(out.e.n))})


def _comp_remove(I, args):
    import symex
    I.loop_bound = 8

    class _E:
        pass
    e = _E()
    e.I = I
    d = VStr(bstr.lit(I.raw_args[0].encode("latin-1")))
    rm, out = K.run_remove(e, d)
    if not z3.is_true(z3.simplify(is_ok(rm))):
        return VStruct("?", {"ok": VBool(False), "out": VStr(bstr.lit(""))})
    return VStruct("?", {"ok": VBool(True), "out": out})


COMPOSITES = {"@png_write_read": (_comp_write_read, "png_write_read", None), "@png_remove": (_comp_remove, "png_remove", None)}
_A = _png([(b"IHDR", b"\x00" * 13), (b"IDAT", b"abc"), (b"IEND", b"")])
_B = _png([(b"IHDR", b"\x00" * 13), (b"caBX", b"old!"), (b"IDAT", b"abc"), (b"IEND", b"")])
_C = _png([(b"IHDR", b""), (b"gAMA", b"\x00\x01"), (b"caBX", b"zz"), (b"IEND", b"")])
_D = _png([(b"caBX", b"q"), (b"IHDR", b"xy"), (b"IEND", b"")])
_BAD = _png([(b"IDAT", b"abc"), (b"IEND", b"")])
VECTORS = [("@png_write_read", [x, s]) for x in (_A, _B, _C, _D, _BAD) for s in ("", "S", "store")] + [("@png_remove", [x]) for x in (_A, _B, _C, _D, _BAD)]
NATIVE_MAP = {}

"""C14 (kernels) -- reserved-size padding is exact and succeeds for any ample reserve.
Sources executed symbolically:
  sdk/src/crypto/cose/sign.rs      pad_cose_sig            (COSE padding)
  sdk/src/assertions/data_hash.rs  DataHash::pad_to_size   (data-hash padding)

What is symbolic: the size of the unpadded structure (every signature / certificate chain / hash
length collapses into that one number) and the reserved size.  The padding routines only ever look
at LENGTHS, so byte vectors are modelled by their length alone (`Bytes{n}`), and the CBOR serialiser
(coset / c2pa_cbor, third-party) is replaced by its size function:

    size(byte string of n bytes) = n + 1 | 2 | 3 | 5 | 9   for n < 24 | 2^8 | 2^16 | 2^32 | else
    size(map entry text-label -> byte string) = 1 + len(label) + size(byte string)      (label < 24 chars)

The map headers stay one byte (fewer than 24 entries).  The size model is validated on every run
against the real serialisers through the native runner (encoder validation vectors below), and every
counterexample is replayed on the real `pad_cose_sig` / `DataHash::pad_to_size`.

Oracle (one-directional where the property is): a reserve equal to the unpadded size, or at least
MIN_PAD = 5 bytes above it, must be padded to EXACTLY the reserve; nothing panics.  A reserve 1..4
bytes above the unpadded size cannot be represented at all (the smallest CBOR entry `"pad": h''`
takes 5 bytes), so an error is the only possible answer there and the oracle does not ask for
success.
"""
import z3

import bstr
from bstr import BStr, bv, b8, ult, ule, ugt, uge
from symex import (VStr, VInt, VBool, VChar, VStruct, VVec, VEnum, VUnit, VTuple, Effects, none, some, opt, is_some, is_ok, ok, TAG,
                   Unsupported)
import engine

FILES = ["/repo/sdk/src/crypto/cose/sign.rs", "/repo/sdk/src/assertions/data_hash.rs"]
MIN_PAD = 5  # 1 (text header) + 3 ("pad") + 1 (empty byte string)


def caps(tier):
    # loop: iterations of the guess/push loops; dh: (initial pad + bytes to add) for DataHash (one push per byte)
    return dict(loop=12, dh=40, extra=2 ** 17, starts=(0, 20)) if tier == "quick" else dict(loop=16, dh=80, extra=2 ** 24, starts=(0, 10, 23, 200))


# ---- length-only byte vectors ---------------------------------------------------------------------
def Bytes(n):
    return VStruct("Bytes", {"n": n if isinstance(n, VInt) else VInt(n)})


def hdr(n):
    """bytes taken by the CBOR header of a byte/text string of length n"""
    return z3.If(ult(n, bv(24)), bv(1), z3.If(ult(n, bv(256)), bv(2), z3.If(ult(n, bv(65536)), bv(3), z3.If(ult(n, bv(2 ** 32)), bv(5), bv(9)))))


def bytes_size(n):
    return hdr(n) + n


def _vec_repeat(I, args, pc):
    el, n = args
    if not isinstance(el, VChar):
        raise Unsupported("vec![elem; n] of non-bytes")
    return Bytes(n)


def _bytes_len(I, args, pc):
    return args[0].fields["n"]


def _bytes_push(I, args, pc):
    n = args[0].fields["n"].e
    I.panic(z3.And(pc, n == bv(2 ** 64 - 1)), "Vec::push capacity overflow")
    return Effects(VUnit(), recv=Bytes(VInt(n + bv(1))))


def _bytes_clear(I, args, pc):
    return Effects(VUnit(), recv=Bytes(0))


def _bytes_truncate(I, args, pc):
    n, k = args[0].fields["n"].e, args[1].e
    return Effects(VUnit(), recv=Bytes(VInt(z3.If(ult(k, n), k, n))))


def _bytes_resize(I, args, pc):
    return Effects(VUnit(), recv=Bytes(VInt(args[1].e)))


def _bytes_extend(I, args, pc):
    n, other = args[0].fields["n"].e, args[1]
    if not (isinstance(other, VStruct) and other.name == "Bytes"):
        raise Unsupported("extend of a byte vector by something that is not a byte vector")
    return Effects(VUnit(), recv=Bytes(VInt(n + other.fields["n"].e)))


# ---- CoseSign1 / coset model ------------------------------------------------------------------------
def label(text):
    return VEnum("Label", TAG("Label", "Text"), {"Text": [VStr(bstr.lit(text))]})


def value_bytes(b):
    return VEnum("Value", TAG("Value", "Bytes"), {"Bytes": [b], "Array": [VUnit()]})


def value_other():
    return VEnum("Value", TAG("Value", "Array"), {"Bytes": [Bytes(0)], "Array": [VUnit()]})


def sign1_value(base, with_other):
    rest = [VTuple([label("x5chain"), value_other()])] if with_other else []
    return VStruct("CoseSign1", {"base": base, "unprotected": VStruct("Header", {"rest": VVec(rest)})})


def sign1_size(s):
    """serialised size: everything that is not a byte-string entry of `unprotected.rest` is inside `base`"""
    rest = s.fields["unprotected"].fields["rest"]
    total = s.fields["base"].e
    for i, it in enumerate(rest.items):
        lab, val = it.items
        ltxt = lab.payload["Text"][0].e
        b = val.payload["Bytes"][0].fields["n"].e
        contrib = z3.If(val.tag == TAG("Value", "Bytes"), bv(1) + ltxt.n + bytes_size(b), bv(0))
        total = total + z3.If(ult(bv(i), rest.n), contrib, bv(0))
    return total


def _to_tagged_vec(I, args, pc):
    return ok(Bytes(VInt(sign1_size(args[0]))))


def _clone(I, args, pc):
    return args[0]


def _cbor_err(I, args, pc):
    return VEnum("CoseError", TAG("CoseError", "CborGenerationError"), {})


# ---- DataHash model -----------------------------------------------------------------------------------
def dh_value(base, pad, pad2):
    return VStruct("DataHash", {"base": base, "pad": pad, "pad2": pad2})


def dh_size(d):
    p = d.fields["pad"].fields["n"].e
    p2 = d.fields["pad2"]
    n2 = p2.payload["Some"][0].fields["n"].e
    # "pad2" entry: 1 + 4 (label) + byte string
    return d.fields["base"].e + bytes_size(p) + z3.If(is_some(p2), bv(5) + bytes_size(n2), bv(0))


def _to_assertion(I, args, pc):
    return ok(VStruct("Assertion", {"n": VInt(dh_size(args[0]))}))


def _assertion_data(I, args, pc):
    return Bytes(args[0].fields["n"])


OVERRIDES = {
    "vec_repeat": _vec_repeat,
    "Vec::new": lambda I, a, pc: Bytes(0),
    "Bytes::len": _bytes_len, "Bytes::push": _bytes_push, "Bytes::clear": _bytes_clear,
    "Bytes::truncate": _bytes_truncate, "Bytes::resize": _bytes_resize, "Bytes::extend": _bytes_extend,
    "Bytes::extend_from_slice": _bytes_extend, "Bytes::clone": lambda I, a, pc: a[0],
    "Bytes::is_empty": lambda I, a, pc: VBool(a[0].fields["n"].e == bv(0)),
    "CoseSign1::to_tagged_vec": _to_tagged_vec, "CoseSign1::clone": _clone,
    "DataHash::to_assertion": _to_assertion, "Assertion::data": _assertion_data,
    "ByteBuf::from": lambda I, a, pc: a[0],
}


def _install(I, E=None):
    # error conversions build messages with to_string(): opaque
    I.overrides["CoseError::CborGenerationError"] = _cbor_err
    if E is not None:
        def feasible(pc):
            """exact pruning of recursive calls: unsat(path condition) means the call is unreachable"""
            s = z3.Solver()
            s.set("timeout", 10000)
            s.add(E.assumes)
            s.add(I.side)
            s.add(pc)
            return s.check() != z3.unsat
        I.feasible = feasible


# ---- queries ---------------------------------------------------------------------------------------------
def make_queries(tier):
    C = caps(tier)

    def mk_cose(with_other):
        def q(E):
            if E.mode != "symbolic":
                return replay_cose(E, with_other)
            I = E.I
            _install(I, E)
            I.loop_bound = C["loop"]
            I.recursion_bound = 5
            B = E.int("cur_size", 2 ** 20)
            E.assume(uge(B.e, bv(16)))
            extra = E.int("extra", C["extra"])
            end = VInt(B.e + extra.e)
            r = E.call("pad_cose_sig", sign1_value(B, with_other), some(end))
            good = is_ok(r)
            out_len = r.payload["Ok"][0].fields["n"].e if r.payload.get("Ok") else bv(0)
            E.prove("a reserve equal to the unpadded size, or at least %d bytes larger, is accepted" % MIN_PAD,
                    z3.Implies(z3.Or(extra.e == bv(0), uge(extra.e, bv(MIN_PAD))), good))
            E.prove("an accepted reserve is padded to exactly the reserved size", z3.Implies(good, out_len == end.e))
            E.cover("pad shorter than 24 bytes", z3.And(good, ugt(extra.e, bv(0)), ult(extra.e, bv(24))))
            E.cover("pad with a 2-byte length", z3.And(good, ugt(extra.e, bv(300)), ult(extra.e, bv(60000))))
            E.cover("pad with a 4-byte length", z3.And(good, ugt(extra.e, bv(70000))))
            E.cover("size unreachable with one pad (second pad needed)", z3.And(good, extra.e == bv(4 + 25)))
        q.__name__ = "q_cose_pad_%s" % ("with_other_header" if with_other else "bare")
        q.__doc__ = ("pad_cose_sig: symbolic unpadded size and reserve (up to +%d bytes); unprotected header %s" %
                     (C["extra"], "with one unrelated entry" if with_other else "empty"))
        return q

    def q_cose_no_reserve(E):
        """pad_cose_sig without a reserve returns the unpadded serialisation"""
        if E.mode != "symbolic":
            r = E.native("pad_cose_sig", [64, None, None])
            r0 = E.native("pad_cose_sig", [64, None, None])
            E.prove("no reserve: unpadded size returned", z3.BoolVal(r["ok"] and r["len"] == r0["len"]))
            return
        I = E.I
        _install(I)
        I.loop_bound = C["loop"]
        B = E.int("cur_size", 2 ** 20)
        r = E.call("pad_cose_sig", sign1_value(B, True), none())
        E.prove("no reserve: unpadded size returned", z3.And(is_ok(r), r.payload["Ok"][0].fields["n"].e == B.e))

    def mk_dh(p0c):
        def q(E):
            if E.mode != "symbolic":
                return replay_dh(E, p0c)
            I = E.I
            _install(I, E)
            # a second pass (after the pad2 fallback) restarts from an empty pad and may push up to start + growth bytes
            I.loop_bound = p0c + C["dh"] + 2
            I.recursion_bound = 3
            base = E.int("base", 2 ** 16)  # everything but pad/pad2 (includes the "pad" label)
            E.assume(uge(base.e, bv(8)))
            extra = E.int("extra", C["dh"])
            d = dh_value(base, Bytes(p0c), none_bytes())
            cur = dh_size(d)
            desired = VInt(cur + extra.e)
            env = {"d": d, "desired": desired}
            ast = {"k": "mcall", "line": 0, "recv": {"k": "path", "path": "d"}, "method": "pad_to_size", "turbofish": None,
                   "args": [{"k": "path", "path": "desired"}]}
            import symex
            I.frames.append(symex.Frame("<driver>"))
            try:
                r, env2, _ = I.eval(ast, env, z3.BoolVal(True))
            finally:
                I.frames.pop()
            d2 = env2["d"]
            good = is_ok(r)
            E.prove("padding up to a size that is not smaller than the current one succeeds", good)
            E.prove("after success the serialised size is exactly the desired size", z3.Implies(good, dh_size(d2) == desired.e))
            E.cover("second pad used", z3.And(good, is_some(d2.fields["pad2"])))
            E.cover("pad grows by more than 20 bytes", z3.And(good, uge(d2.fields["pad"].fields["n"].e, bv(p0c + 20))))
        q.__name__ = "q_data_hash_pad_from_%d" % p0c
        q.__doc__ = "DataHash::pad_to_size from a pad of %d bytes: symbolic target up to +%d bytes (one push per byte)" % (p0c, C["dh"])
        return q

    def q_data_hash_pad_any_growth_bughunt(E):
        """DataHash::pad_to_size from an empty pad with ANY growth up to 2^17 bytes, BUG HUNTING ONLY: paths that need more loop
        iterations than the bound are assumed away (no unwinding assertion), so for the present one-byte-per-iteration code this
        adds nothing beyond the bounded queries; it exists to reach large growths should the loop ever grow the pad in bigger steps"""
        if E.mode != "symbolic":
            return replay_dh(E, 0)
        I = E.I
        _install(I, E)
        I.loop_bound = 12
        I.recursion_bound = 3
        base = E.int("base", 2 ** 16)
        E.assume(uge(base.e, bv(8)))
        extra = E.int("extra", 2 ** 17)
        d = dh_value(base, Bytes(0), none_bytes())
        cur = dh_size(d)
        desired = VInt(cur + extra.e)
        env = {"d": d, "desired": desired}
        ast = {"k": "mcall", "line": 0, "recv": {"k": "path", "path": "d"}, "method": "pad_to_size", "turbofish": None,
               "args": [{"k": "path", "path": "desired"}]}
        import symex
        I.frames.append(symex.Frame("<driver>"))
        try:
            r, env2, _ = I.eval(ast, env, z3.BoolVal(True))
        finally:
            I.frames.pop()
        # unwinding guards become assumptions (stated: bug hunting only)
        for g, _m in I.unwinds:
            E.assume(z3.Not(g))
        del I.unwinds[:]
        d2 = env2["d"]
        good = is_ok(r)
        E.prove("padding up to a size that is not smaller than the current one succeeds", good)
        E.prove("after success the serialised size is exactly the desired size", z3.Implies(good, dh_size(d2) == desired.e))
        E.cover("some growth explored", z3.And(good, ugt(extra.e, bv(3))))

    def q_dh_too_small(E):
        """DataHash::pad_to_size to a size below the current one is an error, never a panic"""
        if E.mode != "symbolic":
            mi = E.model_inputs
            r = E.native("data_hash_pad", [32, int(mi["start_pad"]), -int(mi["less"])])
            E.prove("shrinking is refused", z3.BoolVal(not r["ok"]))
            return
        I = E.I
        _install(I)
        I.loop_bound = 4
        base = E.int("base", 2 ** 16)
        E.assume(uge(base.e, bv(8)))
        p0 = E.int("start_pad", 2 ** 20)
        less = E.int("less", 2 ** 16)
        d = dh_value(base, Bytes(p0), none_bytes())
        cur = dh_size(d)
        E.assume(z3.And(uge(less.e, bv(1)), ule(less.e, cur)))
        r = E.call("DataHash::pad_to_size", d, VInt(cur - less.e))
        E.prove("shrinking is refused", z3.Not(is_ok(r)))

    qs = [mk_cose(False), mk_cose(True), q_cose_no_reserve, q_dh_too_small, q_data_hash_pad_any_growth_bughunt] + [mk_dh(p) for p in C["starts"]]
    return qs


def none_bytes():
    return VEnum("Option", TAG("Option", "None"), {"Some": [Bytes(0)]})


# ---- native replay -----------------------------------------------------------------------------------------
def _real_base(sig_len, other):
    r = engine.native_calls([("pad_cose_sig", [sig_len, other, None])])[0]
    return r["ok"]["len"]


def _sig_len_for(B, other):
    """a signature length whose real unpadded serialisation is B bytes (or as close as CBOR allows)"""
    sig = max(0, B - 40)
    for _ in range(6):
        cur = _real_base(sig, other)
        if cur == B:
            break
        sig = max(0, sig + (B - cur))
    return sig


def replay_cose(E, with_other):
    mi = E.model_inputs
    other = 9 if with_other else None
    sig = _sig_len_for(int(mi["cur_size"]), other)
    base = _real_base(sig, other)
    extra = int(mi["extra"])
    r = E.native("pad_cose_sig", [sig, other, base + extra])
    E.prove("a reserve equal to the unpadded size, or at least %d bytes larger, is accepted" % MIN_PAD,
            z3.BoolVal(not (extra == 0 or extra >= MIN_PAD) or r["ok"]))
    E.prove("an accepted reserve is padded to exactly the reserved size", z3.BoolVal((not r["ok"]) or r["len"] == base + extra))


def replay_dh(E, p0c):
    mi = E.model_inputs
    r = E.native("data_hash_pad", [32, p0c, int(mi["extra"])])
    E.prove("padding up to a size that is not smaller than the current one succeeds", z3.BoolVal(bool(r["ok"])))
    E.prove("after success the serialised size is exactly the desired size", z3.BoolVal((not r["ok"]) or r["final"] == r["desired"]))


# ---- encoder / model validation -----------------------------------------------------------------------------
def _comp_cose(I, args):
    """the model's answer for pad_cose_sig on a real structure: base size measured natively"""
    sig, other, extra = [a.e if hasattr(a, "e") else a for a in args]
    sig, extra = bstr.cval(sig), bstr.cval(extra)
    other_n = None if isinstance(args[1], VUnit) else bstr.cval(args[1].e)
    _install(I)
    I.loop_bound, I.recursion_bound = 16, 5
    base = _real_base(sig, other_n)
    r = I.call("pad_cose_sig", [sign1_value(VInt(base), other_n is not None), some(VInt(base + extra))])
    good = z3.simplify(is_ok(r))
    ln = z3.simplify(z3.If(good, r.payload["Ok"][0].fields["n"].e, bv(0))) if r.payload.get("Ok") else bv(0)
    return VStruct("?", {"ok": VBool(good), "len": VInt(ln)})


def _conv_cose(a):
    sig, other, extra = a
    base = _real_base(sig, other)
    return [sig, other, base + extra]


def _comp_dh(I, args):
    hl, p0, extra = [bstr.cval(a.e) for a in args]
    _install(I)
    I.loop_bound, I.recursion_bound = extra + p0 + 4, 3
    real0 = engine.native_calls([("data_hash_pad", [hl, p0, 0])])[0]["ok"]
    base = real0["base"] - (p0 + (1 if p0 < 24 else 2 if p0 < 256 else 3 if p0 < 65536 else 5))
    import symex
    d = dh_value(VInt(base), Bytes(p0), none_bytes())
    env = {"d": d, "desired": VInt(real0["base"] + extra)}
    ast = {"k": "mcall", "line": 0, "recv": {"k": "path", "path": "d"}, "method": "pad_to_size", "turbofish": None,
           "args": [{"k": "path", "path": "desired"}]}
    I.frames.append(symex.Frame("<driver>"))
    try:
        r, env2, _ = I.eval(ast, env, z3.BoolVal(True))
    finally:
        I.frames.pop()
    d2 = env2["d"]
    p2 = d2.fields["pad2"]
    return VStruct("?", {"base": VInt(real0["base"]), "desired": VInt(real0["base"] + extra), "ok": VBool(z3.simplify(is_ok(r))),
                         "final": VInt(z3.simplify(dh_size(d2))), "pad": VInt(z3.simplify(d2.fields["pad"].fields["n"].e)),
                         "has_pad2": VBool(z3.simplify(is_some(p2))),
                         "pad2": VInt(z3.simplify(z3.If(is_some(p2), p2.payload["Some"][0].fields["n"].e, bv(0))))})


COMPOSITES = {
    "@pad_cose_sig": (_comp_cose, "pad_cose_sig", _conv_cose),
    "@data_hash_pad": (_comp_dh, "data_hash_pad", None),
}
VECTORS = ([("@pad_cose_sig", [64, None, x]) for x in (0, 1, 4, 5, 6, 7, 12, 28, 29, 30, 31, 200, 261, 262, 263, 264, 300, 5000, 65541, 65542, 65543, 65544, 65545, 70000)] +
           [("@pad_cose_sig", [300, 20, x]) for x in (0, 3, 5, 29, 262, 1000, 65544)] +
           [("@data_hash_pad", [32, p, x]) for p, x in ((0, 0), (0, 1), (0, 23), (0, 24), (0, 25), (0, 30), (20, 3), (20, 4), (20, 5), (23, 1), (10, 60), (250, 10), (0, 270))])
NATIVE_MAP = {}

"""Bounded byte strings over bit-vectors (the string algebra used by symex.py).

A string is a fixed-capacity list of 8-bit bit-vector terms plus a 64-bit length term
(invariant: length <= capacity; bytes at positions >= length are don't-care).  Every operation
is a finite, quantifier-free bit-vector formula, so z3/cvc5 decide queries by bit-blasting:
no string theory, no heap model.  Capacities are static Python ints; an operation whose result
could exceed MAXCAP records an *unwinding obligation* through the `ob` callback (the run is
inconclusive if such an obligation is satisfiable).

Only ASCII content is modelled (Rust `str` byte semantics == char semantics there); callers
assume every input byte < 0x80.
"""
import z3

W = 64
MAXCAP = 96


def bv(x):
    return z3.BitVecVal(x, W)


def b8(x):
    return z3.BitVecVal(x, 8)


def ult(a, b):
    return z3.ULT(a, b)


def ule(a, b):
    return z3.ULE(a, b)


def ugt(a, b):
    return z3.UGT(a, b)


def uge(a, b):
    return z3.UGE(a, b)


def cval(x):
    """python int if the term simplifies to a numeral, else None"""
    x = z3.simplify(x)
    if z3.is_bv_value(x):
        return x.as_long()
    return None


class BStr:
    __slots__ = ("b", "n")

    def __init__(self, b, n):
        self.b = list(b)
        self.n = n

    @property
    def cap(self):
        return len(self.b)

    def __repr__(self):
        c = concrete(self)
        return "BStr(%r)" % c if c is not None else "BStr(cap=%d)" % self.cap


def lit(s):
    data = s.encode("utf-8") if isinstance(s, str) else bytes(s)
    return BStr([b8(c) for c in data], bv(len(data)))


def sym(name, cap):
    """fresh symbolic string of capacity cap; returns (BStr, [constraints])"""
    b = [z3.BitVec("%s_b%d" % (name, i), 8) for i in range(cap)]
    n = z3.BitVec("%s_len" % name, W)
    return BStr(b, n), [ule(n, bv(cap))]


def concrete(s, model=None):
    def ev(x):
        return model.eval(x, model_completion=True) if model is not None else z3.simplify(x)
    n = ev(s.n)
    if not z3.is_bv_value(n):
        return None
    n = n.as_long()
    out = []
    for i in range(min(n, s.cap)):
        c = ev(s.b[i])
        if not z3.is_bv_value(c):
            return None
        out.append(c.as_long())
    return bytes(out).decode("latin-1")


IDXBITS = 8  # string positions fit in 8 bits (MAXCAP < 256)


def _idx_parts(i):
    """(low IDXBITS bits, 'all higher bits are zero')"""
    return z3.Extract(IDXBITS - 1, 0, i), z3.Extract(W - 1, IDXBITS, i) == z3.BitVecVal(0, W - IDXBITS)


def at(s, i):
    """byte at (symbolic) index i; 0 when out of capacity"""
    ci = cval(i)
    if ci is not None:
        return s.b[ci] if ci < s.cap else b8(0)
    lo, small = _idx_parts(i)
    res = b8(0)
    for k in range(s.cap - 1, -1, -1):
        res = z3.If(lo == z3.BitVecVal(k, IDXBITS), s.b[k], res)
    return z3.If(small, res, b8(0))


def shift_left(bs, off, outcap=None):
    """barrel shifter: out[j] = bs[off + j] (0 beyond the end), off symbolic (BV64)"""
    outcap = len(bs) if outcap is None else outcap
    lo, small = _idx_parts(off)
    cur = list(bs)
    for bit in range(IDXBITS):
        step = 1 << bit
        if step >= len(cur) + 1 and bit > 0:
            # shifting by >= len clears everything
            c = z3.Extract(bit, bit, lo) == z3.BitVecVal(1, 1)
            cur = [z3.If(c, b8(0), x) for x in cur]
            continue
        c = z3.Extract(bit, bit, lo) == z3.BitVecVal(1, 1)
        cur = [z3.If(c, cur[j + step] if j + step < len(cur) else b8(0), cur[j]) for j in range(len(cur))]
    cur = [z3.If(small, x, b8(0)) for x in cur]
    return (cur + [b8(0)] * outcap)[:outcap]


def shift_right(bs, off, outcap):
    """out[i] = bs[i - off] for i >= off (0 before), off symbolic"""
    lo, small = _idx_parts(off)
    cur = (list(bs) + [b8(0)] * outcap)[:outcap]
    for bit in range(IDXBITS):
        step = 1 << bit
        c = z3.Extract(bit, bit, lo) == z3.BitVecVal(1, 1)
        cur = [z3.If(c, cur[j - step] if j - step >= 0 else b8(0), cur[j]) for j in range(len(cur))]
    return [z3.If(small, x, b8(0)) for x in cur]


def eq(a, b):
    conds = [a.n == b.n]
    m = min(a.cap, b.cap)
    for i in range(m):
        conds.append(z3.Or(uge(bv(i), a.n), a.b[i] == b.b[i]))
    if a.cap != b.cap:
        conds.append(ule(a.n, bv(m)))
    return z3.And(conds)


def ite(c, a, b):
    m = max(a.cap, b.cap)
    bs = []
    for i in range(m):
        x = a.b[i] if i < a.cap else b8(0)
        y = b.b[i] if i < b.cap else b8(0)
        bs.append(z3.If(c, x, y))
    return BStr(bs, z3.If(c, a.n, b.n))


def concat(a, b, ob=None):
    la = cval(a.n)
    if la is not None:
        la = min(la, a.cap)
        bs = a.b[:la] + b.b
        n = bv(la) + b.n
        if len(bs) > MAXCAP:
            if ob:
                ob(ugt(n, bv(MAXCAP)), "string longer than MAXCAP=%d after concatenation" % MAXCAP)
            bs = bs[:MAXCAP]
        return BStr(bs, n)
    cap = a.cap + b.cap
    n = a.n + b.n
    if cap > MAXCAP:
        if ob:
            ob(ugt(n, bv(MAXCAP)), "string longer than MAXCAP=%d after concatenation" % MAXCAP)
        cap = MAXCAP
    shifted = shift_right(b.b, a.n, cap)
    bs = []
    for i in range(cap):
        if i < a.cap:
            bs.append(z3.If(ult(bv(i), a.n), a.b[i], shifted[i]))
        else:
            bs.append(shifted[i])
    return BStr(bs, n)


def concat_many(parts, ob=None):
    res = parts[0]
    for p in parts[1:]:
        res = concat(res, p, ob)
    return res


def substr(s, off, cnt):
    """s[off .. off+cnt] (caller guarantees off+cnt <= len)"""
    co = cval(off)
    if co is not None:
        bs = s.b[co:] if co < s.cap else []
        cc = cval(cnt)
        if cc is not None:
            bs = bs[:min(cc, len(bs))]
        return BStr(bs, cnt)
    bs = shift_left(s.b, off)
    cc = cval(cnt)
    if cc is not None:
        bs = bs[:min(cc, len(bs))]
    return BStr(bs, cnt)


def match_at(s, pat, p):
    """pat occurs in s at static position p"""
    m = cval(pat.n)
    if m is not None:
        if p + m > s.cap:
            return z3.BoolVal(False)
        conds = [ule(bv(p + m), s.n)]
        for k in range(m):
            conds.append(s.b[p + k] == pat.b[k])
        return z3.And(conds)
    conds = [ule(bv(p) + pat.n, s.n)]
    for k in range(pat.cap):
        if p + k < s.cap:
            conds.append(z3.Or(uge(bv(k), pat.n), s.b[p + k] == pat.b[k]))
        else:
            conds.append(uge(bv(k), pat.n))
    return z3.And(conds)


def match_flags(s, pat):
    return [match_at(s, pat, p) for p in range(s.cap + 1)]


def prefixof(p, s):
    return match_at(s, p, 0)


def suffixof(p, s):
    m = cval(p.n)
    if m is not None and m > p.cap:
        return z3.BoolVal(False)  # length beyond capacity: only arises from wrapped arithmetic in dead branches
    conds = [ule(p.n, s.n)]
    off = s.n - p.n
    tail = shift_left(s.b, off, p.cap if m is None else m)
    rng = range(m) if m is not None else range(p.cap)
    for k in rng:
        c = tail[k] == p.b[k]
        conds.append(c if m is not None else z3.Or(uge(bv(k), p.n), c))
    return z3.And(conds)


def indexof(s, pat, start=None, flags=None):
    """first occurrence at position >= start: (found, idx)"""
    flags = flags or match_flags(s, pat)
    found = z3.BoolVal(False)
    idx = bv(0)
    for p in range(len(flags) - 1, -1, -1):
        c = flags[p] if start is None else z3.And(flags[p], uge(bv(p), start))
        idx = z3.If(c, bv(p), idx)
        found = z3.Or(c, found)
    return found, idx


def lastindexof(s, pat):
    flags = match_flags(s, pat)
    found = z3.BoolVal(False)
    idx = bv(0)
    for p in range(len(flags)):
        idx = z3.If(flags[p], bv(p), idx)
        found = z3.Or(flags[p], found)
    return found, idx


def contains(s, pat):
    return z3.Or(match_flags(s, pat))


def lower(s):
    return BStr([z3.If(z3.And(uge(c, b8(65)), ule(c, b8(90))), c + b8(32), c) for c in s.b], s.n)


def all_bytes(s, pred):
    return z3.And([z3.Or(uge(bv(i), s.n), pred(s.b[i])) for i in range(s.cap)] or [z3.BoolVal(True)])


def any_byte(s, pred):
    return z3.Or([z3.And(ult(bv(i), s.n), pred(s.b[i])) for i in range(s.cap)] or [z3.BoolVal(False)])


def is_digit(c):
    return z3.And(uge(c, b8(48)), ule(c, b8(57)))


def split(s, pat, K, ob=None, what=""):
    """Rust's str::split: parts list (K+1 BStr) and count n (BV64) = 1 + separators found (<= K)."""
    flags = match_flags(s, pat)
    parts = []
    start = bv(0)
    alive = z3.BoolVal(True)
    n = bv(1)
    for _ in range(K):
        found, idx = indexof(s, pat, start, flags)
        has = z3.And(alive, found)
        cnt = z3.If(has, idx - start, s.n - start)
        parts.append(substr(s, start, cnt))
        n = n + z3.If(has, bv(1), bv(0))
        start = z3.If(has, idx + pat.n, s.n)
        alive = has
    found, idx = indexof(s, pat, start, flags)
    if ob:
        ob(z3.And(alive, found), "split produced more than %d parts %s" % (K + 1, what))
    parts.append(substr(s, start, s.n - start))
    return parts, n


def parse_unsigned(s, maxval):
    """Rust <uN as FromStr>: optional '+', one or more ASCII digits, value <= maxval.
    Returns (ok, value as BV64)."""
    plus = z3.And(ugt(s.n, bv(0)), s.b[0] == b8(43)) if s.cap > 0 else z3.BoolVal(False)
    WW = 72
    acc = z3.BitVecVal(0, WW)
    big = z3.BitVecVal(maxval, WW)
    digits_ok = z3.BoolVal(True)
    ndig = bv(0)
    for i in range(s.cap):
        inb = ult(bv(i), s.n)
        is_sign = z3.And(plus, i == 0) if i == 0 else z3.BoolVal(False)
        d = z3.ZeroExt(WW - 8, s.b[i] - b8(48))
        active = z3.And(inb, z3.Not(is_sign))
        digits_ok = z3.And(digits_ok, z3.Or(z3.Not(active), is_digit(s.b[i])))
        acc = z3.If(active, z3.If(ugt(acc, big), acc, acc * z3.BitVecVal(10, WW) + d), acc)
        ndig = ndig + z3.If(active, bv(1), bv(0))
    good = z3.And(digits_ok, ugt(ndig, bv(0)), ule(acc, big))
    return good, z3.Extract(W - 1, 0, acc)


_fresh = [0]


def int_to_str(v, side, maxval=None):
    """decimal rendering of an unsigned 64-bit value: fresh digits constrained by
    sum(d_i * 10^i) == v (unique), no leading zero; constraints appended to `side`."""
    _fresh[0] += 1
    tag = "itos%d" % _fresh[0]
    WW = 72
    ND = 20 if maxval is None else len(str(maxval))
    ds = [z3.BitVec("%s_d%d" % (tag, i), 8) for i in range(ND)]  # d[0] = least significant
    k = z3.BitVec("%s_k" % tag, W)  # number of digits 1..20
    total = z3.BitVecVal(0, WW)
    for i in range(ND):
        side.append(ule(ds[i], b8(9)))
        side.append(z3.Implies(uge(bv(i), k), ds[i] == b8(0)))
        total = total + z3.ZeroExt(WW - 8, ds[i]) * z3.BitVecVal(10 ** i, WW)
    side.append(total == z3.ZeroExt(WW - W, v))
    side.append(uge(k, bv(1)))
    side.append(ule(k, bv(ND)))
    # most significant digit non-zero unless the value is a single digit
    msd = b8(0)
    for i in range(ND):
        msd = z3.If(k == bv(i + 1), ds[i], msd)
    side.append(z3.Or(k == bv(1), msd != b8(0)))
    # string bytes: position j holds digit k-1-j
    bs = []
    for j in range(ND):
        dj = b8(0)
        for i in range(ND):
            dj = z3.If(k - bv(1) - bv(j) == bv(i), ds[i], dj)
        bs.append(dj + b8(48))
    return BStr(bs, k)


_nm = [0]


def named(s, side, hint="s"):
    """replace a string whose bytes are deep terms by fresh variables defined equal to them
    (definitions appended to `side`); keeps later terms small. Constants are left alone."""
    s = BStr([z3.simplify(x) for x in s.b], z3.simplify(s.n))
    if all(z3.is_bv_value(x) for x in s.b) and z3.is_bv_value(s.n):
        return s
    _nm[0] += 1
    tag = "%s!%d" % (hint, _nm[0])
    bs = []
    for i, x in enumerate(s.b):
        if z3.is_bv_value(x) or (z3.is_const(x) and x.decl().kind() == z3.Z3_OP_UNINTERPRETED):
            bs.append(x)
        else:
            v = z3.BitVec("%s_b%d" % (tag, i), 8)
            side.append(v == x)
            bs.append(v)
    n = s.n
    if not (z3.is_bv_value(n) or (z3.is_const(n) and n.decl().kind() == z3.Z3_OP_UNINTERPRETED)):
        n = z3.BitVec("%s_len" % tag, W)
        side.append(n == s.n)
    return BStr(bs, n)

"""Shared library model: an in-memory byte stream (std::io::Cursor<&[u8]> semantics) with the
`byteorder::ReadBytesExt` readers.  A stream is VStruct("Stream", {bytes: VStr, pos: VInt}).
Reads are FULL reads (what Cursor does); short-read schedules are the subject of C35's Kani harnesses.
"""
import re

import z3

import bstr
from bstr import BStr, bv, b8, ult, ule, ugt, uge
from symex import (VStr, VInt, VBool, VChar, VStruct, VVec, VEnum, VUnit, Effects, none, some, opt, ok, TAG, VUninit)

for _v in ("Start", "End", "Current"):
    TAG("SeekFrom", _v)


def io_err():
    return VEnum("Error", TAG("Error", "IoError"), {})


def stream(data, pos=0):
    return VStruct("Stream", {"bytes": data, "pos": pos if not isinstance(pos, int) else VInt(pos)})


def _res(okc, val):
    return VEnum("Result", z3.If(okc, TAG("Result", "Ok"), TAG("Result", "Err")), {"Ok": [val], "Err": [io_err()]})


def _with_pos(s, pos):
    f = dict(s.fields)
    f["pos"] = VInt(pos)
    return VStruct(s.name, f)


def m_rewind(I, args, pc):
    return Effects(ok(VUnit()), recv=_with_pos(args[0], bv(0)))


def m_stream_position(I, args, pc):
    return ok(args[0].fields["pos"])


def m_stream_len(I, args, pc):
    return ok(VInt(args[0].fields["bytes"].e.n))


def m_seek(I, args, pc):
    s, how = args[0], args[1]
    n, pos = s.fields["bytes"].e.n, s.fields["pos"].e
    tag = how.tag
    sp, ep, cp = (how.payload.get(k, [VInt(0)])[0].e for k in ("Start", "End", "Current"))
    base = z3.If(tag == TAG("SeekFrom", "End"), n, pos)
    off = z3.If(tag == TAG("SeekFrom", "End"), ep, cp)
    rel = base + off  # two's complement: off is an i64
    # std: seeking to a negative or overflowing position is an error
    neg = z3.If(z3.Extract(63, 63, off) == z3.BitVecVal(1, 1), ult(base, -off), z3.Not(z3.BVAddNoOverflow(base, off, False)))
    is_start = tag == TAG("SeekFrom", "Start")
    newpos = z3.If(is_start, sp, rel)
    good = z3.Or(is_start, z3.Not(neg))
    return Effects(_res(good, VInt(newpos)), recv=_with_pos(s, z3.If(good, newpos, pos)))


def _take(s, k):
    """(fits, bytes BStr of k (python int) bytes at pos, new stream)"""
    data, pos = s.fields["bytes"].e, s.fields["pos"].e
    fits = z3.And(ule(pos, data.n), ule(bv(k), data.n - pos))
    got = bstr.substr(data, pos, bv(k))
    got = BStr((got.b + [b8(0)] * k)[:k], bv(k))
    return fits, got, _with_pos(s, z3.If(fits, pos + bv(k), pos))


def m_read_exact(I, args, pc):
    s, buf = args[0], args[1]
    data, pos, n = s.fields["bytes"].e, s.fields["pos"].e, buf.e.n
    fits = z3.And(ule(pos, data.n), ule(n, data.n - pos))
    got = bstr.substr(data, pos, n)
    got = BStr((got.b + [b8(0)] * buf.e.cap)[:buf.e.cap], n)
    newbuf = VStr(bstr.named(bstr.ite(fits, got, buf.e), I.side, "rd"))
    return Effects(_res(fits, VUnit()), recv=_with_pos(s, z3.If(fits, pos + n, pos)), args={1: newbuf})


def m_read(I, args, pc):
    """Read::read on a Cursor: copies min(buf.len(), remaining) bytes, never fails"""
    s, buf = args[0], args[1]
    data, pos, n = s.fields["bytes"].e, s.fields["pos"].e, buf.e.n
    rem = z3.If(ule(pos, data.n), data.n - pos, bv(0))
    k = z3.If(ule(n, rem), n, rem)
    got = bstr.substr(data, z3.If(ule(pos, data.n), pos, data.n), k)
    # bytes beyond k keep the buffer's old content
    bs = []
    for i in range(buf.e.cap):
        src = got.b[i] if i < got.cap else b8(0)
        bs.append(z3.If(ult(bv(i), k), src, buf.e.b[i]))
    newbuf = VStr(bstr.named(BStr(bs, n), I.side, "rd"))
    return Effects(ok(VInt(k)), recv=_with_pos(s, pos + k), args={1: newbuf})


def _read_be(nbytes):
    def m(I, args, pc):
        s = args[0]
        fits, got, ns = _take(s, nbytes)
        val = z3.Concat(*got.b) if nbytes > 1 else got.b[0]
        val = z3.ZeroExt(64 - 8 * nbytes, val)
        return Effects(_res(fits, VInt(val) if nbytes > 1 else VChar(got.b[0])), recv=ns)
    return m


def m_read_u8(I, args, pc):
    s = args[0]
    fits, got, ns = _take(s, 1)
    return Effects(_res(fits, VInt(z3.ZeroExt(56, got.b[0]))), recv=ns)


def from_be_bytes(I, args, pc):
    b = args[0].e
    k = bstr.cval(b.n)
    if k is None or k not in (2, 4, 8):
        raise Exception("from_be_bytes on a buffer of non-constant length")
    return VInt(z3.ZeroExt(64 - 8 * k, z3.Concat(*b.b[:k])))


def from_le_bytes(I, args, pc):
    b = args[0].e
    k = bstr.cval(b.n)
    return VInt(z3.ZeroExt(64 - 8 * k, z3.Concat(*reversed(b.b[:k]))))


def opaque_string(I, args, pc):
    """String::from_utf8_lossy(..)/to_string(): the text is never inspected by the parsers under analysis"""
    return VStr(bstr.lit("<lossy>"))


# ---- writing, io::copy, Take (read/write handlers: C07/C09) ------------------------------------------------
def _write_at(I, s, data, pc):
    """bytes after writing `data` (BStr) at the stream position (overwrite, then extend)"""
    old, pos = s.fields["bytes"].e, s.fields["pos"].e
    I.unwind(z3.And(pc, ugt(pos, old.n)), "write beyond the end of the stream (hole) is not modelled")
    head = bstr.substr(old, bv(0), pos)
    tail_start = pos + data.n
    tail = bstr.substr(old, tail_start, z3.If(ugt(old.n, tail_start), old.n - tail_start, bv(0)))
    new = bstr.concat(bstr.concat(head, data, I.ob(pc)), tail, I.ob(pc))
    return VStruct("Stream", {"bytes": VStr(bstr.named(new, I.side, "wr")), "pos": VInt(pos + data.n)})


def _as_bytes(buf):
    if isinstance(buf, VVec) and not buf.items:
        return bstr.lit("")  # `&[]`
    return buf.e


def m_write_all(I, args, pc):
    s, buf = args[0], _as_bytes(args[1])
    return Effects(ok(VUnit()), recv=_write_at(I, s, buf, pc))


def m_write(I, args, pc):
    s, buf = args[0], _as_bytes(args[1])
    return Effects(ok(VInt(buf.n)), recv=_write_at(I, s, buf, pc))


def _rest(s, limit=None):
    """(bytes from the position to the end, at most `limit`; the stream advanced past them)"""
    data, pos = s.fields["bytes"].e, s.fields["pos"].e
    rem = z3.If(ule(pos, data.n), data.n - pos, bv(0))
    k = rem if limit is None else z3.If(ule(limit, rem), limit, rem)
    got = bstr.substr(data, z3.If(ule(pos, data.n), pos, data.n), k)
    return got, k, _with_pos(s, pos + k)


def m_take(I, args, pc):
    """Read::take(n) on a `&mut` stream: the Take aliases the stream it was made from"""
    from symex import VRefPlace, strip_ref
    e, recv_ast = I.current_call
    return VStruct("Take", {"src": VRefPlace(strip_ref(recv_ast)), "limit": args[1]})


def _take_src(I, take, pc):
    v, _, _ = I.eval(take.fields["src"].place, I.current_env, pc)
    return v


def m_io_copy(I, args, pc):
    """std::io::copy(reader, writer): everything the reader still yields is appended at the writer's position"""
    src, dst = args[0], args[1]
    if isinstance(src, VStruct) and src.name == "Take":
        inner = _take_src(I, src, pc)
        got, k, adv = _rest(inner, src.fields["limit"].e)
        newdst = _write_at(I, dst, got, pc)
        return Effects(ok(VInt(k)), args={1: newdst}, places=[(src.fields["src"].place, adv)])
    if isinstance(src, VStruct) and src.name == "Stream":
        got, k, adv = _rest(src)
        newdst = _write_at(I, dst, got, pc)
        return Effects(ok(VInt(k)), args={0: adv, 1: newdst})
    from symex import Unsupported
    raise Unsupported("io::copy from " + type(src).__name__)


def m_take_read_to_end(I, args, pc):
    take, out = args[0], args[1]
    inner = _take_src(I, take, pc)
    got, k, adv = _rest(inner, take.fields["limit"].e)
    if isinstance(out, VVec):
        out = VStr(bstr.lit(""))
    newout = VStr(bstr.named(bstr.concat(out.e, got, I.ob(pc)), I.side, "rte"))
    return Effects(ok(VInt(k)), args={1: newout}, places=[(take.fields["src"].place, adv)])


def m_take_into_inner(I, args, pc):
    return _take_src(I, args[0], pc)


def m_read_to_vec(I, args, pc):
    """ReaderUtils::read_to_vec is executed from its source (utils/io_utils.rs); only the dispatch is modelled"""
    r = I.call("<R as ReaderUtils>::read_to_vec", [args[0], args[1]], pc)
    return Effects(r, recv=I.last_self)


def m_safe_vec_bytes(I, args, pc):
    """safe_vec(n, None) used as the output buffer of read_to_end: an empty byte vector (capacity is not modelled)"""
    return ok(VStr(bstr.lit("")))


# ---- faulty stream (C35): every `read` may return fewer bytes than asked for, or an I/O error ---------------------------
SCHEDULES = {}


def new_schedule(sid, shorts, errs):
    """shorts[i] (z3 BV64, >= 1): most bytes the i-th read hands back; errs[i] (z3 Bool): the i-th read fails"""
    SCHEDULES[sid] = (list(shorts), list(errs))


def fstream(data, pos, sid):
    return VStruct("FStream", {"bytes": data, "pos": pos if not isinstance(pos, int) else VInt(pos), "k": VInt(0), "sid": VInt(sid)})


def _sched(s):
    shorts, errs = SCHEDULES[bstr.cval(s.fields["sid"].e)]
    k = s.fields["k"].e
    short = shorts[-1]
    err = z3.BoolVal(False)
    for i in range(len(shorts) - 1, -1, -1):
        short = z3.If(k == bv(i), shorts[i], short)
        err = z3.If(k == bv(i), errs[i], err)
    return short, err, len(shorts)


def _f_next(s, pos, k):
    f = dict(s.fields)
    f["pos"], f["k"] = VInt(pos), VInt(k)
    return VStruct(s.name, f)


def m_fread(I, args, pc):
    s, buf = args[0], args[1]
    data, pos, n = s.fields["bytes"].e, s.fields["pos"].e, buf.e.n
    short, err, K = _sched(s)
    I.unwind(z3.And(pc, uge(s.fields["k"].e, bv(K))), "more reads than the %d scheduled ones" % K)
    rem = z3.If(ule(pos, data.n), data.n - pos, bv(0))
    c = z3.If(ule(n, rem), n, rem)
    c = z3.If(ule(c, short), c, short)
    got = bstr.substr(data, z3.If(ule(pos, data.n), pos, data.n), c)
    bs = []
    for i in range(buf.e.cap):
        src = got.b[i] if i < got.cap else b8(0)
        bs.append(z3.If(z3.And(z3.Not(err), ult(bv(i), c)), src, buf.e.b[i]))
    newbuf = VStr(bstr.named(BStr(bs, n), I.side, "frd"))
    res = VEnum("Result", z3.If(err, TAG("Result", "Err"), TAG("Result", "Ok")), {"Ok": [VInt(c)], "Err": [io_err()]})
    return Effects(res, recv=_f_next(s, z3.If(err, pos, pos + c), s.fields["k"].e + bv(1)), args={1: newbuf})


def m_fread_exact(I, args, pc):
    from symex import Unsupported
    raise Unsupported("read_exact on the faulty stream is not modelled")


def _f_read_to_end(I, inner, limit, out, pc):
    """std::io::Read::read_to_end through a Take over the faulty stream: reads until the limit is used up or the inner
    stream is at its end; an inner error ends it with Err (bytes read so far stay in the buffer)"""
    data = inner.fields["bytes"].e
    st = inner
    acc = out.e if isinstance(out, VStr) else bstr.lit("")
    lim = limit
    done = z3.BoolVal(False)
    failed = z3.BoolVal(False)
    total = bv(0)
    K = len(SCHEDULES[bstr.cval(inner.fields["sid"].e)][0])
    for _ in range(K + 1):
        pos = st.fields["pos"].e
        rem = z3.If(ule(pos, data.n), data.n - pos, bv(0))
        short, err, _k = _sched(st)
        finished_now = z3.And(z3.Not(done), lim == bv(0))       # Take with nothing left: no inner read
        reads = z3.And(z3.Not(done), lim != bv(0))
        I.unwind(z3.And(pc, reads, uge(st.fields["k"].e, bv(K))), "more reads than the %d scheduled ones" % K)
        c = z3.If(ule(lim, rem), lim, rem)
        c = z3.If(ule(c, short), c, short)
        okread = z3.And(reads, z3.Not(err))
        got = bstr.substr(data, z3.If(ule(pos, data.n), pos, data.n), z3.If(okread, c, bv(0)))
        acc = bstr.named(bstr.concat(acc, got, I.ob(pc)), I.side, "rte")
        total = total + z3.If(okread, c, bv(0))
        failed = z3.Or(failed, z3.And(reads, err))
        eof = z3.And(okread, c == bv(0))
        st = _f_next(st, z3.If(okread, pos + c, pos), z3.If(reads, st.fields["k"].e + bv(1), st.fields["k"].e))
        lim = z3.If(okread, lim - c, lim)
        done = z3.Or(done, finished_now, z3.And(reads, err), eof)
    I.unwind(z3.And(pc, z3.Not(done)), "read_to_end needs more than %d reads" % (K + 1))
    res = VEnum("Result", z3.If(failed, TAG("Result", "Err"), TAG("Result", "Ok")), {"Ok": [VInt(total)], "Err": [io_err()]})
    return res, VStr(acc), st


def m_take_read_to_end_any(I, args, pc):
    take, out = args[0], args[1]
    inner = _take_src(I, take, pc)
    if isinstance(inner, VStruct) and inner.name == "FStream":
        res, newout, st = _f_read_to_end(I, inner, take.fields["limit"].e, out, pc)
        return Effects(res, args={1: newout}, places=[(take.fields["src"].place, st)])
    return m_take_read_to_end(I, args, pc)


def m_safe_vec(I, args, pc):
    """safe_vec(n, init): Some(byte) -> n copies (bounded by the buffer capacity); None -> empty vector with capacity"""
    n, init = args[0], args[1]
    if isinstance(init, VEnum) and init.payload.get("Some"):
        el = init.payload["Some"][0]
        I.unwind(z3.And(pc, ugt(n.e, bv(I.buffer_cap))), "safe_vec longer than %d" % I.buffer_cap)
        return ok(VStr(BStr([el.e] * I.buffer_cap, n.e)))
    return ok(VStr(bstr.lit("")))


FAULT_OVERRIDES = {
    "FStream::read": m_fread, "FStream::read_exact": m_fread_exact,
    "FStream::rewind": m_rewind, "FStream::stream_position": m_stream_position, "FStream::seek": m_seek,
    "FStream::take": m_take, "Take::read_to_end": m_take_read_to_end_any, "Take::into_inner": m_take_into_inner,
    "FStream::read_to_vec": m_read_to_vec, "safe_vec": m_safe_vec,
}


WRITE_OVERRIDES = {
    "Stream::write_all": m_write_all, "Stream::write": m_write, "Stream::flush": lambda I, a, pc: ok(VUnit()),
    "Stream::take": m_take, "Take::read_to_end": m_take_read_to_end, "Take::into_inner": m_take_into_inner,
    "io::copy": m_io_copy, "Stream::read_to_vec": m_read_to_vec, "safe_vec": m_safe_vec_bytes,
}


OVERRIDES = {
    "Stream::rewind": m_rewind, "Stream::stream_position": m_stream_position, "Stream::seek": m_seek,
    "Stream::read_exact": m_read_exact, "Stream::read": m_read,
    "Stream::read_u8": m_read_u8, "Stream::read_u16": _read_be(2), "Stream::read_u24": _read_be(3),
    "Stream::read_u32": _read_be(4), "Stream::read_u64": _read_be(8),
    "stream_len": m_stream_len,
    "u16::from_be_bytes": from_be_bytes, "u32::from_be_bytes": from_be_bytes, "u64::from_be_bytes": from_be_bytes,
    "u16::from_le_bytes": from_le_bytes, "u32::from_le_bytes": from_le_bytes, "u64::from_le_bytes": from_le_bytes,
    "String::from_utf8_lossy": opaque_string,
}


def boxtype_consts(path):
    """the name => value table of a `boxtype! { ... }` invocation (read from the source on every run)"""
    txt = open(path, errors="replace").read()
    out = {}
    for blk in re.finditer(r"^boxtype!\s*\{(.*?)^\}", txt, re.S | re.M):
        for m in re.finditer(r"(\w+)\s*=>\s*(0x[0-9a-fA-F_]+)", blk.group(1)):
            out[m.group(1)] = VInt(int(m.group(2).replace("_", ""), 16))
    return out

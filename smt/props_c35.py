"""C35 (Engine-Z part) -- results do not depend on stream chunking, and I/O errors are never hidden:
ReaderUtils::read_to_vec (sdk/src/utils/io_utils.rs), the bounded read helper every handler uses to pull a manifest
or a box payload out of a stream.  Kani could not execute it (std's read_to_end; DESIGN 7.2); here its SOURCE is
executed over a faulty in-memory stream model: every `read` issued by the routine (directly, or by std's
read_to_end through `Take`, which is modelled as a loop of such reads) may hand back fewer bytes than asked for --
at least one, per a symbolic schedule -- or fail with an I/O error.

Decided for ALL data, positions, lengths and schedules in the bound:
  * an Ok result is exactly the requested bytes data[pos .. pos+len]  (never truncated, never shifted);
  * if no read fails, the result is Ok exactly when the range lies inside the stream (chunking independence);
  * if a read that the routine needed fails, the result is an error, not a shorter Ok.
"""
import z3

import bstr
from bstr import BStr, bv, b8, ult, ule, ugt, uge
from symex import VStr, VInt, VBool, VStruct, VVec, VEnum, VUnit, is_ok, ok, TAG
import models_stream as ms

FILES = ["/repo/sdk/src/utils/io_utils.rs"]
OVERRIDES = dict(ms.OVERRIDES)
OVERRIDES.update(ms.FAULT_OVERRIDES)


def caps(tier):
    return dict(data=4, reads=5) if tier == "quick" else dict(data=6, reads=7)


def _j(v):
    import symex
    return symex.concrete(v)


def make_queries(tier):
    C = caps(tier)

    def q_read_to_vec_chunking_and_faults(E):
        """read_to_vec over a stream with scheduled short reads and read failures"""
        data = E.str("data", C["data"], "bytes")
        pos = E.int("pos", C["data"] + 1)
        n = E.int("len", C["data"] + 2)
        K = C["reads"]
        shorts = [E.int("short%d" % i, C["data"] + 2) for i in range(K)]
        errs = [E.bool("fail%d" % i) for i in range(K)]
        for sh in shorts:
            E.assume(uge(sh.e, bv(1)))
        inside = z3.And(ule(pos.e, data.e.n), ule(n.e, data.e.n - pos.e))
        want = bstr.substr(data.e, pos.e, n.e)
        if E.mode != "symbolic":
            r = E.native("read_to_vec_faulty", [_j(data), _j(pos), _j(n), [_j(x) for x in shorts], [_j(x) for x in errs]])
            exp = _j(data)[_j(pos):_j(pos) + _j(n)]
            ins = _j(pos) <= len(_j(data)) and _j(n) <= len(_j(data)) - _j(pos)
            nofail = not any(_j(x) for x in errs)
            E.prove("an Ok result is exactly the requested bytes", z3.BoolVal((not r["ok"]) or (ins and r["bytes"] == exp)))
            E.prove("without read failures the outcome does not depend on how the stream chunks its reads", z3.BoolVal((not nofail) or (r["ok"] == ins)))
            return
        I = E.I
        I.loop_bound = K + 2
        I.buffer_cap = C["data"] + 2
        ms.new_schedule(1, [x.e for x in shorts], [x.e for x in errs])
        st = ms.fstream(data, pos, 1)
        r = I.call("<R as ReaderUtils>::read_to_vec", [st, n])
        got = r.payload["Ok"][0] if r.payload.get("Ok") else VStr(bstr.lit(""))
        nofail = z3.Not(z3.Or([x.e for x in errs]))
        E.prove("an Ok result is exactly the requested bytes", z3.Implies(is_ok(r), z3.And(inside, bstr.eq(got.e, want))))
        E.prove("without read failures the outcome does not depend on how the stream chunks its reads", z3.Implies(nofail, is_ok(r) == inside))
        E.cover("three short reads", z3.And(is_ok(r), n.e == bv(3), shorts[0].e == bv(1), shorts[1].e == bv(1)))
        E.cover("a failing second read makes the call fail", z3.And(z3.Not(is_ok(r)), inside, z3.Not(errs[0].e), errs[1].e, ugt(n.e, bv(1)), shorts[0].e == bv(1)))
        E.cover("range past the end rejected", z3.And(z3.Not(is_ok(r)), nofail))

    return [q_read_to_vec_chunking_and_faults]


def _comp(I, args):
    data, pos, n, shorts, errs = I.raw_args
    I.loop_bound = len(shorts) + 2
    I.buffer_cap = 12
    ms.new_schedule(7, [bv(x) for x in shorts], [z3.BoolVal(x) for x in errs])
    st = ms.fstream(VStr(bstr.lit(data.encode("latin-1"))), pos, 7)
    r = I.call("<R as ReaderUtils>::read_to_vec", [st, VInt(n)])
    good = z3.is_true(z3.simplify(is_ok(r)))
    return VStruct("?", {"ok": VBool(good), "bytes": r.payload["Ok"][0] if good else VStr(bstr.lit(""))})


def _conv(a):
    return a


COMPOSITES = {"@rtv": (_comp, "read_to_vec_faulty_okbytes", None)}
VECTORS = [("@rtv", ["abcdef", p, n, sh, er]) for p, n, sh, er in (
    (0, 6, [6] * 6, [False] * 6), (0, 6, [1] * 8, [False] * 8), (2, 3, [2, 1, 1, 1], [False] * 4), (2, 5, [9] * 4, [False] * 4),
    (6, 0, [1], [False]), (7, 0, [1], [False]), (0, 4, [2, 2, 2], [False, True, False]), (1, 2, [5, 5], [True, False]),
    (0, 3, [1, 1, 1, 1], [False, False, True, False]))]
NATIVE_MAP = {}

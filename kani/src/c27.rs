//! C27 — redirect targets: address classification.
//! Kernel: ipv4_is_non_global / ipv6_is_non_global / ip_is_non_global (+ std::net predicates
//! as compiled), normalize_host, looks_like_obfuscated_ip.
use std::net::{IpAddr, Ipv4Addr, Ipv6Addr};

use c2pa::http::restricted::verif_hooks as h;

/// Reference classification written from the property text (prefix table).
fn ref_v4_non_global(a: u8, b: u8, c: u8, d: u8) -> bool {
    let x: u32 = ((a as u32) << 24) | ((b as u32) << 16) | ((c as u32) << 8) | (d as u32);
    let in_net = |net: u32, bits: u32| -> bool {
        let mask: u32 = if bits == 0 { 0 } else { !0u32 << (32 - bits) };
        (x & mask) == (net & mask)
    };
    in_net(0x0000_0000, 8)            // unspecified / "this network"
        || in_net(0x0a00_0000, 8)     // private 10/8
        || in_net(0x6440_0000, 10)    // shared address space 100.64/10
        || in_net(0x7f00_0000, 8)     // loopback
        || in_net(0xa9fe_0000, 16)    // link local
        || in_net(0xac10_0000, 12)    // private 172.16/12
        || in_net(0xc000_0200, 24)    // documentation 192.0.2/24
        || in_net(0xc0a8_0000, 16)    // private 192.168/16
        || in_net(0xc633_6400, 24)    // documentation 198.51.100/24
        || in_net(0xcb00_7100, 24)    // documentation 203.0.113/24
        || in_net(0xe000_0000, 4)     // multicast
        || x == 0xffff_ffff           // broadcast
}

#[kani::proof]
pub fn c27_ipv4_all_addresses() {
    let (a, b, c, d): (u8, u8, u8, u8) = kani::any();
    let got = h::ipv4_is_non_global(Ipv4Addr::new(a, b, c, d));
    let must_block = ref_v4_non_global(a, b, c, d);
    // The property is one-directional (never reach internal addresses) ...
    if must_block {
        assert!(got, "internal IPv4 address accepted as redirect target");
    }
    // (one-directional on purpose: blocking MORE than the table is not a violation of the property)
    kani::cover!(got && a == 100, "blocked CGNAT witness");
    kani::cover!(!got, "a global address exists");
    kani::cover!(got && a == 203, "blocked documentation witness");
}

fn ref_v6_non_global(s: &[u16; 8]) -> bool {
    let mapped = s[0] == 0 && s[1] == 0 && s[2] == 0 && s[3] == 0 && s[4] == 0 && s[5] == 0xffff;
    if mapped {
        ref_v4_non_global((s[6] >> 8) as u8, s[6] as u8, (s[7] >> 8) as u8, s[7] as u8)
    } else {
        let all_zero_hi = s[0] == 0 && s[1] == 0 && s[2] == 0 && s[3] == 0 && s[4] == 0 && s[5] == 0 && s[6] == 0;
        (all_zero_hi && s[7] == 0)          // ::
            || (all_zero_hi && s[7] == 1)   // ::1
            || (s[0] >> 8) == 0xff          // multicast ff00::/8
            || (s[0] >> 9) == (0xfc00 >> 9) // unique local fc00::/7
            || (s[0] >> 6) == (0xfe80 >> 6) // link local fe80::/10
    }
}

#[kani::proof]
pub fn c27_ipv6_all_addresses() {
    let s: [u16; 8] = kani::any();
    let ip = Ipv6Addr::new(s[0], s[1], s[2], s[3], s[4], s[5], s[6], s[7]);
    let got = h::ipv6_is_non_global(ip);
    let mapped = s[0] == 0 && s[1] == 0 && s[2] == 0 && s[3] == 0 && s[4] == 0 && s[5] == 0xffff;
    let must_block = ref_v6_non_global(&s);
    if must_block {
        assert!(got, "internal IPv6 address accepted as redirect target");
    }
    kani::cover!(mapped && got, "mapped blocked witness");
    kani::cover!(mapped && !got, "mapped global witness");
    kani::cover!(!mapped && got && s[0] == 0xfd00, "ULA witness");
    kani::cover!(!mapped && !got, "global v6 witness");
}

/// The family dispatcher used by host_is_non_global blocks the table for both families.
#[kani::proof]
pub fn c27_ip_dispatch() {
    let (a, b, c, d): (u8, u8, u8, u8) = kani::any();
    let got4 = h::ip_is_non_global(IpAddr::V4(Ipv4Addr::new(a, b, c, d)));
    if ref_v4_non_global(a, b, c, d) {
        assert!(got4, "internal IPv4 address accepted by the IpAddr dispatcher");
    }
    let s: [u16; 8] = kani::any();
    let got6 = h::ip_is_non_global(IpAddr::V6(Ipv6Addr::new(s[0], s[1], s[2], s[3], s[4], s[5], s[6], s[7])));
    if ref_v6_non_global(&s) {
        assert!(got6, "internal IPv6 address accepted by the IpAddr dispatcher");
    }
    kani::cover!(got4, "v4 blocked");
    kani::cover!(!got6, "v6 global");
}

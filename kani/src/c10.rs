//! C10 — untrusted input never crashes (named parser kernels only).
//! Asserted: Kani's built-in checks on the compiled code -- no panic, no arithmetic overflow
//! (dev profile: overflow checks on), no out-of-bounds access, no `unreachable!`, and termination
//! within the unwinding bound (unwinding assertions) -- for EVERY byte string up to the bound.
use std::io::Cursor;

use c2pa::verif_hooks::{bmff_io::verif_hooks as bmff, boxes::BoxReader, png_io::verif_hooks as png};

use crate::util::{any_bytes24, any_bytes32};

/// BoxReader::read_header on every stream of 0..=24 bytes.
#[kani::proof]
pub fn c10_jumbf_read_header_total() {
    let data = any_bytes24();
    let len: usize = kani::any();
    kani::assume(len <= 24);
    let mut cur = Cursor::new(&data[..len]);
    let r = BoxReader::read_header(&mut cur);
    // declared sizes are reported verbatim, never "fixed up"
    if let Ok(h) = &r {
        if len >= 8 {
            let s32 = u32::from_be_bytes([data[0], data[1], data[2], data[3]]);
            if s32 != 1 {
                assert!(h.size == s32 as u64);
            }
        }
    }
    kani::cover!(r.is_ok() && len >= 16 && data[3] == 1 && data[0] == 0 && data[1] == 0 && data[2] == 0, "large-size header");
    kani::cover!(r.is_err(), "truncated large-size header rejected");
    core::mem::forget(r);
}

/// Format sniffing (the first code that touches an untrusted stream) on every stream of 0..=16 bytes.
#[kani::proof]
pub fn c10_format_sniff_total() {
    let data = any_bytes24();
    let len: usize = kani::any();
    kani::assume(len <= 16);
    let mut cur = Cursor::new(&data[..len]);
    let d = c2pa::jumbf_io::verif_hooks::container_from_stream(&mut cur);
    kani::cover!(d == Some("mp3") && data[0] == b'I', "ID3 path with a look-ahead beyond the end of the stream");
    kani::cover!(d.is_none(), "unidentified");
}

/// read_ftyp_box on every stream of 0..=32 bytes (declared sizes up to u64::MAX via large size).
#[kani::proof]
pub fn c10_bmff_ftyp_total() {
    let data = any_bytes32();
    let len: usize = kani::any();
    kani::assume(len <= 32);
    let mut cur = Cursor::new(&data[..len]);
    let r = bmff::read_ftyp_box(&mut cur);
    kani::cover!(matches!(r, Ok((_, n)) if n >= 2), "ftyp with two compatible brands");
    kani::cover!(r.is_err() && len == 32, "rejected");
    core::mem::forget(r);
}

/// PNG chunk scanner on signature + every continuation of 0..=24 bytes.
#[kani::proof]
pub fn c10_png_chunk_scan_total() {
    let tail = any_bytes24();
    let tlen: usize = kani::any();
    kani::assume(tlen <= 24);
    let mut file = [0u8; 32];
    file[..8].copy_from_slice(&[0x89, 0x50, 0x4e, 0x47, 0x0d, 0x0a, 0x1a, 0x0a]);
    let mut i = 0;
    while i < 24 {
        file[8 + i] = tail[i];
        i += 1;
    }
    let mut cur = Cursor::new(&file[..8 + tlen]);
    let r = png::png_chunk_positions(&mut cur);
    if let Ok(v) = &r {
        assert!(!v.is_empty());
        kani::cover!(v.len() == 2, "two chunks");
    }
    kani::cover!(r.is_err(), "rejected");
    core::mem::forget(r);
}

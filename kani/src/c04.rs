//! C04 — validation state is derived soundly from validation codes.
//! Kernel: ValidationResults::validation_state, is_tolerated_manifest_failure_code (private, reached
//! through validation_state), StatusCodes::add_*_val / add_status, ValidationResults::add_status,
//! IngredientDeltaValidationResult::new.
//!
//! Idiom (DESIGN 1): the *shape* (how many success/informational/failure slots the active manifest
//! and each delta have) is fixed per harness; every status CODE is an arbitrary ASCII string of
//! symbolic length 0..=29 (29 = longest code the decision compares against), and presence of the
//! active manifest / of the delta list is a symbolic bool.
use c2pa::{
    status_tracker::LogKind,
    validation_results::{IngredientDeltaValidationResult, StatusCodes, ValidationResults, ValidationState},
    validation_status::ValidationStatus,
};

pub const MAXLEN: usize = 29;

/// An arbitrary ASCII byte string of length 0..=29 in fixed storage (no loops: 4 x u64 masked to 7 bits).
#[derive(Clone, Copy)]
pub struct Code {
    bytes: [u8; 32],
    len: usize,
}

impl Code {
    pub fn any() -> Self {
        let w: (u64, u64, u64, u64) = kani::any();
        let m = 0x7f7f_7f7f_7f7f_7f7fu64;
        let words = [w.0 & m, w.1 & m, w.2 & m, w.3 & m];
        let bytes: [u8; 32] = unsafe { core::mem::transmute(words) };
        let len: usize = kani::any();
        kani::assume(len <= MAXLEN);
        Code { bytes, len }
    }

    pub fn as_slice(&self) -> &[u8] {
        &self.bytes[..self.len]
    }

    pub fn to_string(&self) -> String {
        let mut v: Vec<u8> = Vec::with_capacity(32);
        unsafe {
            core::ptr::copy_nonoverlapping(self.bytes.as_ptr(), v.as_mut_ptr(), 32);
            v.set_len(self.len);
            String::from_utf8_unchecked(v)
        }
    }

    pub fn is(&self, lit: &[u8]) -> bool {
        self.len == lit.len() && self.as_slice() == lit
    }

    pub fn starts_with(&self, lit: &[u8]) -> bool {
        self.len >= lit.len() && &self.bytes[..lit.len()] == lit
    }

    /// The property's "explicitly tolerated credential codes".
    pub fn tolerated(&self) -> bool {
        self.is(b"signingCredential.untrusted") || self.starts_with(b"cawg.x509.")
    }
}

const VALIDATED: &[u8] = b"claimSignature.validated";
const INSIDE: &[u8] = b"claimSignature.insideValidity";
const TRUSTED: &[u8] = b"signingCredential.trusted";

/// What the oracle needs to know about one StatusCodes instance, computed on the raw bytes.
#[derive(Clone, Copy, Default)]
struct Facts {
    has_validated: bool,
    has_inside: bool,
    has_trusted: bool,
    n_fail: usize,
    all_fail_tolerated: bool,
}

fn build_codes<const S: usize, const I: usize, const F: usize>() -> (StatusCodes, Facts) {
    let mut sc = StatusCodes::default();
    let mut f = Facts { all_fail_tolerated: true, ..Default::default() };
    let mut i = 0;
    while i < S {
        let c = Code::any();
        f.has_validated |= c.is(VALIDATED);
        f.has_inside |= c.is(INSIDE);
        f.has_trusted |= c.is(TRUSTED);
        sc = sc.add_success_val(ValidationStatus::verif_new(c.to_string()));
        i += 1;
    }
    let mut i = 0;
    while i < I {
        let c = Code::any();
        sc = sc.add_informational_val(ValidationStatus::verif_new(c.to_string()).set_kind(LogKind::Informational));
        i += 1;
    }
    let mut i = 0;
    while i < F {
        let c = Code::any();
        f.n_fail += 1;
        f.all_fail_tolerated &= c.tolerated();
        sc = sc.add_failure_val(ValidationStatus::verif_new(c.to_string()).set_kind(LogKind::Failure));
        i += 1;
    }
    (sc, f)
}

/// The property, one direction only ("Valid only if ...", "Trusted only if ..."): a stricter
/// implementation is not a violation; a more permissive one is.
fn check(state: ValidationState, active: Option<Facts>, deltas: &[Facts]) {
    let mut delta_fail = 0usize;
    let mut delta_all_tolerated = true;
    let mut k = 0;
    while k < deltas.len() {
        delta_fail += deltas[k].n_fail;
        delta_all_tolerated &= deltas[k].all_fail_tolerated;
        k += 1;
    }
    let valid_allowed = match active {
        Some(a) => a.has_validated && a.has_inside && a.all_fail_tolerated && delta_all_tolerated,
        None => false,
    };
    let trusted_allowed = match active {
        Some(a) => valid_allowed && a.has_trusted && a.n_fail == 0 && delta_fail == 0,
        None => false,
    };
    if state == ValidationState::Valid {
        assert!(valid_allowed, "C04: state Valid although a required success code is missing or a non-tolerated failure is present");
    }
    if state == ValidationState::Trusted {
        assert!(valid_allowed, "C04: state Trusted although the manifest does not even qualify as Valid");
        assert!(trusted_allowed, "C04: state Trusted although the credential was not found trusted or a failure is present");
    }
    // Vacuity / completeness witnesses (not alarms): each verdict class is reachable in this shape
    // where the shape allows it; the driver requires the ones listed for the shape to be SATISFIED.
    kani::cover!(state == ValidationState::Invalid, "an Invalid model exists");
}

macro_rules! shape_no_delta {
    ($name:ident, $s:expr, $i:expr, $f:expr, covers: [$($cov:tt)*]) => {
        #[kani::proof]
        pub fn $name() {
            let present: bool = kani::any();
            let (sc, facts) = build_codes::<$s, $i, $f>();
            let mut r = ValidationResults::default();
            if present {
                r = r.add_active_manifest(sc);
            }
            let state = r.validation_state();
            check(state, if present { Some(facts) } else { None }, &[]);
            shape_covers!(state, facts, [$($cov)*]);
            core::mem::forget(r);
        }
    };
}

macro_rules! shape_one_delta {
    ($name:ident, $s:expr, $i:expr, $f:expr, $ds:expr, $df:expr, covers: [$($cov:tt)*]) => {
        #[kani::proof]
        pub fn $name() {
            let (sc, facts) = build_codes::<$s, $i, $f>();
            let (d1, f1) = build_codes::<$ds, 0, $df>();
            let r = ValidationResults::default()
                .add_active_manifest(sc)
                .add_ingredient_delta(IngredientDeltaValidationResult::new("self#jumbf=/c2pa/m/c2pa.assertions/c2pa.ingredient", d1));
            let state = r.validation_state();
            check(state, Some(facts), &[f1]);
            shape_covers!(state, facts, [$($cov)*]);
            core::mem::forget(r);
        }
    };
}

macro_rules! shape_two_deltas {
    ($name:ident, $s:expr, $i:expr, $f:expr, $df1:expr, $df2:expr, covers: [$($cov:tt)*]) => {
        #[kani::proof]
        pub fn $name() {
            let (sc, facts) = build_codes::<$s, $i, $f>();
            let (d1, f1) = build_codes::<0, 0, $df1>();
            let (d2, f2) = build_codes::<0, 0, $df2>();
            let r = ValidationResults::default()
                .add_active_manifest(sc)
                .add_ingredient_delta(IngredientDeltaValidationResult::new("a", d1))
                .add_ingredient_delta(IngredientDeltaValidationResult::new("b", d2));
            let state = r.validation_state();
            check(state, Some(facts), &[f1, f2]);
            shape_covers!(state, facts, [$($cov)*]);
            kani::cover!(state == ValidationState::Invalid && facts.has_validated && facts.has_inside && facts.all_fail_tolerated
                         && f1.all_fail_tolerated, "Invalid caused only by the second ingredient delta");
            core::mem::forget(r);
        }
    };
}

macro_rules! shape_covers {
    ($state:ident, $facts:ident, []) => {};
    ($state:ident, $facts:ident, [trusted $($rest:tt)*]) => {
        kani::cover!($state == ValidationState::Trusted, "a Trusted model exists");
        shape_covers!($state, $facts, [$($rest)*]);
    };
    ($state:ident, $facts:ident, [valid $($rest:tt)*]) => {
        kani::cover!($state == ValidationState::Valid, "a Valid model exists");
        shape_covers!($state, $facts, [$($rest)*]);
    };
    ($state:ident, $facts:ident, [delta_invalid $($rest:tt)*]) => {
        kani::cover!($state == ValidationState::Invalid && $facts.has_validated && $facts.has_inside && $facts.all_fail_tolerated,
                     "Invalid caused only by an ingredient delta");
        shape_covers!($state, $facts, [$($rest)*]);
    };
    ($state:ident, $facts:ident, [valid_with_failure $($rest:tt)*]) => {
        kani::cover!($state == ValidationState::Valid && $facts.n_fail > 0, "a Valid model with a tolerated failure exists");
        shape_covers!($state, $facts, [$($rest)*]);
    };
}

// ---- shapes: (success, informational, failure | deltas) --------------------------------------
// 2 success slots cannot hold validated+insideValidity+trusted, so Trusted is only reachable with 3.
shape_no_delta!(c04_s0_i0_f0, 0, 0, 0, covers: []);
shape_no_delta!(c04_s2_i0_f0, 2, 0, 0, covers: [valid]);
shape_no_delta!(c04_s2_i0_f1, 2, 0, 1, covers: [valid valid_with_failure]);
shape_no_delta!(c04_s2_i0_f2, 2, 0, 2, covers: [valid valid_with_failure]);
shape_no_delta!(c04_s3_i0_f0, 3, 0, 0, covers: [trusted valid]);
shape_no_delta!(c04_s3_i1_f0, 3, 1, 0, covers: [trusted valid]);
shape_no_delta!(c04_s3_i0_f1, 3, 0, 1, covers: [valid valid_with_failure]);
shape_no_delta!(c04_s3_i0_f2, 3, 0, 2, covers: [valid valid_with_failure]);
shape_no_delta!(c04_s3_i1_f2, 3, 1, 2, covers: [valid valid_with_failure]);
shape_one_delta!(c04_s2_i0_f0_d01, 2, 0, 0, 0, 1, covers: [delta_invalid valid]);
shape_one_delta!(c04_s3_i0_f0_d01, 3, 0, 0, 0, 1, covers: [delta_invalid valid]);
shape_one_delta!(c04_s3_i0_f0_d10, 3, 0, 0, 1, 0, covers: [trusted valid]);
shape_one_delta!(c04_s3_i1_f1_d11, 3, 1, 1, 1, 1, covers: [delta_invalid valid valid_with_failure]);
shape_one_delta!(c04_s3_i0_f0_d02, 3, 0, 0, 0, 2, covers: [delta_invalid valid]);
shape_one_delta!(c04_s3_i1_f2_d12, 3, 1, 2, 1, 2, covers: [delta_invalid valid valid_with_failure]);
shape_two_deltas!(c04_s2_i0_f0_dd11, 2, 0, 0, 1, 1, covers: [valid]);
shape_two_deltas!(c04_s3_i0_f1_dd01, 3, 0, 1, 0, 1, covers: [valid valid_with_failure]);
shape_two_deltas!(c04_s3_i0_f0_dd12, 3, 0, 0, 1, 2, covers: [valid]);

// ---- routing through the public add_status (observe_at of the property) -----------------------
/// Three statuses with symbolic code and symbolic kind are routed by ValidationResults::add_status:
/// one without ingredient URI (active manifest), two with ingredient URIs "a"/"b" or both "a".
/// Asserted: a non-tolerated *failure* anywhere forces Invalid; Valid/Trusted need the success codes
/// among the statuses routed to the active manifest.
fn any_kind() -> LogKind {
    let k: u8 = kani::any();
    kani::assume(k < 3);
    match k {
        0 => LogKind::Success,
        1 => LogKind::Informational,
        _ => LogKind::Failure,
    }
}

fn is_failure(k: &LogKind) -> bool {
    matches!(k, LogKind::Failure)
}

fn is_success(k: &LogKind) -> bool {
    matches!(k, LogKind::Success)
}

/// One status with symbolic code and symbolic kind routed by add_status to the ACTIVE manifest (no
/// ingredient URI), on top of the two required success codes added the same way.
#[kani::proof]
pub fn c04_add_status_active() {
    let mut r = ValidationResults::default();
    r.add_status(ValidationStatus::verif_new("claimSignature.validated".to_string()));
    r.add_status(ValidationStatus::verif_new("claimSignature.insideValidity".to_string()));
    let c0 = Code::any();
    let k0 = any_kind();
    let f0 = is_failure(&k0);
    let s0 = is_success(&k0);
    r.add_status(ValidationStatus::verif_new(c0.to_string()).set_kind(k0));
    let state = r.validation_state();
    if f0 && !c0.tolerated() {
        assert!(state == ValidationState::Invalid, "C04: a non-tolerated failure routed by add_status did not force Invalid");
    }
    if state == ValidationState::Trusted {
        assert!(!f0, "C04: Trusted with a failure present");
        assert!(s0 && c0.is(TRUSTED), "C04: Trusted without signingCredential.trusted among the active manifest's success statuses");
    }
    kani::cover!(state == ValidationState::Trusted, "Trusted via add_status");
    kani::cover!(state == ValidationState::Valid && f0, "Valid with a tolerated failure via add_status");
    kani::cover!(state == ValidationState::Invalid, "Invalid via add_status");
    core::mem::forget(r);
}

/// One status with symbolic code and symbolic kind routed by add_status to an INGREDIENT delta
/// (ingredient URI set); the active manifest is built with the builder API and is Trusted-worthy.
#[kani::proof]
pub fn c04_add_status_ingredient() {
    let sc = StatusCodes::default()
        .add_success_val(ValidationStatus::verif_new("claimSignature.validated".to_string()))
        .add_success_val(ValidationStatus::verif_new("claimSignature.insideValidity".to_string()))
        .add_success_val(ValidationStatus::verif_new("signingCredential.trusted".to_string()));
    let mut r = ValidationResults::default().add_active_manifest(sc);
    let c1 = Code::any();
    let k1 = any_kind();
    let f1 = is_failure(&k1);
    r.add_status(ValidationStatus::verif_new(c1.to_string()).set_kind(k1).set_ingredient_uri("a"));
    let state = r.validation_state();
    if f1 && !c1.tolerated() {
        assert!(state == ValidationState::Invalid, "C04: a non-tolerated ingredient failure routed by add_status did not force Invalid");
    }
    if state == ValidationState::Trusted {
        assert!(!f1, "C04: Trusted with an ingredient failure present");
    }
    kani::cover!(state == ValidationState::Trusted, "Trusted with a non-failure ingredient status");
    kani::cover!(state == ValidationState::Valid && f1, "Valid with a tolerated ingredient failure");
    kani::cover!(state == ValidationState::Invalid && f1, "Invalid because of the ingredient");
    core::mem::forget(r);
}

/// Success codes placed on an ingredient delta must not make the active manifest Valid.
#[kani::proof]
pub fn c04_success_codes_on_delta_do_not_count() {
    let c0 = Code::any();
    let sc = StatusCodes::default().add_success_val(ValidationStatus::verif_new(c0.to_string()));
    let d = StatusCodes::default()
        .add_success_val(ValidationStatus::verif_new("claimSignature.validated".to_string()))
        .add_success_val(ValidationStatus::verif_new("claimSignature.insideValidity".to_string()))
        .add_success_val(ValidationStatus::verif_new("signingCredential.trusted".to_string()));
    let r = ValidationResults::default()
        .add_active_manifest(sc)
        .add_ingredient_delta(IngredientDeltaValidationResult::new("a", d));
    let state = r.validation_state();
    assert!(state == ValidationState::Invalid, "C04: success codes of an ingredient were counted for the active manifest");
    kani::cover!(c0.is(VALIDATED), "active manifest has only one of the two required codes");
    core::mem::forget(r);
}

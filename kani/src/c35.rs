//! C35 — results do not depend on stream chunking, and I/O errors are never hidden (kernels:
//! the format-sniffing read and the shared read helpers).
//! The stream is `util::SymStream`: every `read` returns a *symbolic* number of bytes k >= 1
//! (chunking schedule = solver variables), or fails at a symbolic call index.
use std::io::{Cursor, Read, Seek, SeekFrom};

use c2pa::{jumbf_io::verif_hooks as jh, verif_hooks::io_utils as iu};
use iu::ReaderUtils;

use crate::util::{any_bytes24, SymStream};

/// Sniffing result is the same for short reads as for full reads: non-ID3 streams of 0..=LEN bytes
/// (the ID3 look-ahead has its own harness), up to BUDGET short reads of symbolic size at symbolic
/// points of the schedule.
fn sniff_chunking<const LEN: usize, const BUDGET: usize>() {
    let data = any_bytes24();
    let len: usize = kani::any();
    kani::assume(len <= LEN);
    // the ID3 look-ahead is covered by c35_sniff_id3_peek_chunking_independent
    kani::assume(!(data[0] == b'I' && data[1] == b'D' && data[2] == b'3'));
    let mut full = Cursor::new(&data[..len]);
    let want = jh::container_from_stream(&mut full);
    let mut s = SymStream::<24>::new(data, len, true);
    s.short_budget = BUDGET;
    let got = jh::container_from_stream(&mut s);
    assert!(got == want, "C35: format sniffing depends on how the stream chunks its reads");
    assert!(s.pos == 0, "C35: stream not rewound after sniffing");
    kani::cover!(s.short_reads_done >= 2 && want == Some("png"), "PNG delivered in >= 3 pieces");
    kani::cover!(s.short_reads_done >= 1 && want == Some("jpg"), "JPEG signature with a short read");
    kani::cover!(want.is_none() && len >= 8 && s.short_reads_done >= 1, "unidentified, short reads");
}

#[kani::proof]
pub fn c35_sniff_chunking_independent_8() {
    sniff_chunking::<8, 2>();
}

#[kani::proof]
pub fn c35_sniff_chunking_independent() {
    sniff_chunking::<12, 3>();
}

/// Same law with the first read guaranteed to deliver at least 16 bytes (the sniff window) or the
/// whole stream: isolates the known short-first-read finding from everything else the function does.
#[kani::proof]
pub fn c35_sniff_id3_peek_chunking_independent() {
    let data = any_bytes24();
    let len: usize = kani::any();
    kani::assume(len <= 24 && len >= 10);
    kani::assume(data[0] == b'I' && data[1] == b'D' && data[2] == b'3');
    let mut full = Cursor::new(&data[..len]);
    let want = jh::container_from_stream(&mut full);
    let mut s = SymStream::<24>::new(data, len, false);
    // first read full, later reads (the fLaC peek via read_exact) short
    let got = {
        let mut st = FirstFull { inner: &mut s, first_done: false };
        jh::container_from_stream(&mut st)
    };
    assert!(got == want, "C35: ID3/fLaC peek depends on read chunking");
    kani::cover!(want == Some("flac"), "flac behind ID3");
    kani::cover!(want == Some("mp3"), "mp3");
}

struct FirstFull<'a> {
    inner: &'a mut SymStream<24>,
    first_done: bool,
}

impl Read for FirstFull<'_> {
    fn read(&mut self, buf: &mut [u8]) -> std::io::Result<usize> {
        self.inner.short = self.first_done;
        self.first_done = true;
        self.inner.read(buf)
    }
}

impl Seek for FirstFull<'_> {
    fn seek(&mut self, s: SeekFrom) -> std::io::Result<u64> {
        self.inner.seek(s)
    }
}

/// An I/O failure at any read/seek call of the sniffer never panics and never invents a detection
/// that the intact stream would not give.
#[kani::proof]
pub fn c35_sniff_fault_never_invents() {
    let data = any_bytes24();
    let len: usize = kani::any();
    kani::assume(len <= 16);
    let mut full = Cursor::new(&data[..len]);
    let want = jh::container_from_stream(&mut full);
    let mut s = SymStream::<24>::new(data, len, false);
    let k: usize = kani::any();
    kani::assume(k < 8);
    s.fail_at = Some(k);
    let got = jh::container_from_stream(&mut s);
    if s.failed {
        // a failed peek behind an ID3 tag may legitimately fall back to "mp3" (the tag is still an ID3 tag)
        assert!(got.is_none() || got == want || (got == Some("mp3") && want == Some("flac")),
                "C35: sniffing reported a container it could not have read");
    } else {
        assert!(got == want);
    }
    kani::cover!(s.failed && got.is_none() && want.is_some(), "failure hides nothing: None returned");
    kani::cover!(s.failed && k >= 3, "failure during the ID3 peek");
    kani::cover!(!s.failed, "fault index beyond the calls made");
}

/// stream_len: returns the length and preserves the position, for every position/length, and
/// propagates a failure of any of its seeks as Err.
#[kani::proof]
pub fn c35_stream_len_preserves_position_and_propagates_errors() {
    let data = any_bytes24();
    let len: usize = kani::any();
    kani::assume(len <= 24);
    let mut s = SymStream::<24>::new(data, len, true);
    let p: u64 = kani::any();
    s.pos = p;
    let inject: bool = kani::any();
    if inject {
        let k: usize = kani::any();
        kani::assume(k < 3);
        s.fail_at = Some(k);
    }
    let r = iu::stream_len(&mut s);
    if s.failed {
        assert!(r.is_err(), "C35: stream_len hid an I/O error");
    } else {
        match r {
            Ok(l) => {
                assert!(l == len as u64);
                assert!(s.pos == p, "stream_len moved the stream position");
            }
            Err(_) => assert!(false, "stream_len failed without an I/O error"),
        }
    }
    kani::cover!(s.failed, "a seek failed");
    kani::cover!(!s.failed && p > len as u64, "position beyond the end");
    core::mem::forget(r);
}

// ReaderUtils::read_to_vec is NOT claimed: std's default_read_to_end (32-byte probe buffers, fill_with
// loops) made every variant time out under CBMC (909-2400 s for 4-byte streams); see DESIGN 7.2.

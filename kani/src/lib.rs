//! Kani proof harnesses for contentauth/c2pa-rs.  Built by /verif/check with
//! RUSTFLAGS="--cfg contentauth_c2pa_rs_verif" so that the hook modules of the
//! SDK are visible.  Every harness is named `<property>_<what>`; bounds are
//! supplied by the driver (see /verif/lib/harnesses.py).
#![allow(clippy::all)]
#![allow(dead_code)]

pub mod util;

#[cfg(kani)]
pub mod c04;
#[cfg(kani)]
pub mod c10;
#[cfg(kani)]
pub mod c11;
#[cfg(kani)]
pub mod c27;
#[cfg(kani)]
pub mod c35;

/// Counterexamples found by the solver are replayed natively from here (file is rewritten by
/// /verif/lib/replay.py and restored to empty afterwards).
#[cfg(test)]
mod playback_gen;

//! C11 — the reader's verdict does not depend on a wrong format hint (kernel: the sniffing and
//! hint-reconciliation functions that choose the handler family in Reader::with_stream).
//! Kernel: jumbf_io::container_from_stream, jumbf_io::format_from_stream.
use std::io::{Cursor, Seek};

use c2pa::jumbf_io::verif_hooks as h;

use crate::util::any_bytes24;

/// Reference detection written from the property text / the documented magic numbers.
/// `None` = the property does not say (detection may or may not identify a container).
fn must_detect(b: &[u8]) -> Option<&'static str> {
    let n = b.len();
    let ftyp = n >= 8 && b[4] == b'f' && b[5] == b't' && b[6] == b'y' && b[7] == b'p';
    let first = must_detect_first(b);
    match (first, ftyp) {
        (Some(_), true) => None, // two signatures at once: the property does not say which wins
        (Some(d), false) => Some(d),
        (None, true) => Some("avif"),
        (None, false) => None,
    }
}

fn must_detect_first(b: &[u8]) -> Option<&'static str> {
    let n = b.len();
    if n >= 3 && b[0] == 0xff && b[1] == 0xd8 && b[2] == 0xff {
        return Some("jpg");
    }
    if n >= 8 && b[0] == 0x89 && b[1] == b'P' && b[2] == b'N' && b[3] == b'G' && b[4] == 0x0d && b[5] == 0x0a && b[6] == 0x1a && b[7] == 0x0a {
        return Some("png");
    }
    if n >= 6 && b[0] == b'G' && b[1] == b'I' && b[2] == b'F' && b[3] == b'8' && (b[4] == b'7' || b[4] == b'9') && b[5] == b'a' {
        return Some("gif");
    }
    if n >= 4 && ((b[0] == 0x49 && b[1] == 0x49 && (b[2] == 0x2a || b[2] == 0x2b) && b[3] == 0)
        || (b[0] == 0x4d && b[1] == 0x4d && b[2] == 0 && (b[3] == 0x2a || b[3] == 0x2b)))
    {
        return Some("tif");
    }
    if n >= 12 && b[0] == 0 && b[1] == 0 && b[2] == 0 && b[3] == 0x0c && b[4] == b'J' && b[5] == b'X' && b[6] == b'L' && b[7] == b' '
        && b[8] == 0x0d && b[9] == 0x0a && b[10] == 0x87 && b[11] == 0x0a
    {
        return Some("jxl");
    }
    if n >= 4 && b[0] == b'R' && b[1] == b'I' && b[2] == b'F' && b[3] == b'F' {
        return Some("avi");
    }
    if n >= 4 && b[0] == b'f' && b[1] == b'L' && b[2] == b'a' && b[3] == b'C' {
        return Some("flac");
    }
    if n >= 2 && b[0] == 0xff && (b[1] & 0xe0) == 0xe0 {
        return Some("mp3");
    }
    None
}

const IDS: [&str; 12] = ["jpg", "png", "gif", "tif", "jxl", "avi", "avif", "flac", "mp3", "pdf", "svg", "c2pa"];

fn is_id(s: &str) -> bool {
    let mut i = 0;
    while i < IDS.len() {
        if s == IDS[i] {
            return true;
        }
        i += 1;
    }
    false
}

/// container_from_stream on every file of 0..=24 arbitrary bytes: never panics, rewinds the stream,
/// returns a registered container ID, and identifies every magic number listed in the property.
#[kani::proof]
pub fn c11_detection_total_and_rewinds_16() {
    detection_total_and_rewinds::<16>();
}

#[kani::proof]
pub fn c11_detection_total_and_rewinds() {
    detection_total_and_rewinds::<24>();
}

fn detection_total_and_rewinds<const LEN: usize>() {
    let data = any_bytes24();
    let len: usize = kani::any();
    kani::assume(len <= LEN);
    let mut cur = Cursor::new(&data[..len]);
    let d = h::container_from_stream(&mut cur);
    assert!(cur.stream_position().unwrap() == 0, "C11: sniffing left the stream position changed");
    if let Some(id) = d {
        assert!(is_id(id), "C11: detection returned an unknown container id");
    }
    if let Some(want) = must_detect(&data[..len]) {
        assert!(d == Some(want), "C11: leading bytes identify a container but detection disagrees");
    }
    if len >= 10 && data[0] == b'I' && data[1] == b'D' && data[2] == b'3' && !(data[4] == b'f' && data[5] == b't' && data[6] == b'y' && data[7] == b'p') {
        assert!(d == Some("mp3") || d == Some("flac"), "C11: ID3-tagged stream not identified as MP3/FLAC");
    }
    kani::cover!(d == Some("flac") && data[0] == b'I', "ID3 + fLaC peek path taken");
    kani::cover!(d == Some("mp3") && data[0] == b'I', "ID3 without fLaC");
    kani::cover!(d == Some("avif"), "ftyp");
    kani::cover!(d.is_none() && len >= 12, "unidentified stream");
}

// The registry lookup container_from_format(hint) is a lazy_static HashMap (not executable
// symbolically): it is replaced by a stub that returns the harness-chosen family.  The hint string
// is the family's own id (or "zzz" for an unknown hint), so that in native playback -- where the
// stub is not active -- the real registry returns the same answer.
static mut HINT_FAMILY: Option<&'static str> = None;

fn stub_container_from_format(_format: &str) -> Option<&'static str> {
    unsafe { HINT_FAMILY }
}

fn pick_hint() -> (&'static str, Option<&'static str>) {
    let k: u8 = kani::any();
    kani::assume(k <= 12);
    match k {
        0 => ("jpg", Some("jpg")),
        1 => ("png", Some("png")),
        2 => ("gif", Some("gif")),
        3 => ("tif", Some("tif")),
        4 => ("jxl", Some("jxl")),
        5 => ("avi", Some("avi")),
        6 => ("avif", Some("avif")),
        7 => ("flac", Some("flac")),
        8 => ("mp3", Some("mp3")),
        9 => ("svg", Some("svg")),
        10 => ("c2pa", Some("c2pa")),
        11 => ("image/jpeg", Some("jpg")),
        _ => ("zzz", None),
    }
}

/// Reconciliation law: when the bytes identify container d, the format handed to the handler lookup
/// belongs to family d whatever the hint; the hint is used only when the bytes identify nothing.
#[kani::proof]
#[kani::stub(c2pa::jumbf_io::container_from_format, stub_container_from_format)]
pub fn c11_hint_never_overrides_detection_16() {
    hint_never_overrides_detection::<16>();
}

#[kani::proof]
#[kani::stub(c2pa::jumbf_io::container_from_format, stub_container_from_format)]
pub fn c11_hint_never_overrides_detection() {
    hint_never_overrides_detection::<24>();
}

fn hint_never_overrides_detection<const LEN: usize>() {
    let data = any_bytes24();
    let len: usize = kani::any();
    kani::assume(len <= LEN);
    let (hint, fam) = pick_hint();
    unsafe { HINT_FAMILY = fam };

    let mut cur = Cursor::new(&data[..len]);
    let detected = h::container_from_stream(&mut cur);
    let mut cur2 = Cursor::new(&data[..len]);
    let fmt = h::format_from_stream(hint, &mut cur2);
    assert!(cur2.stream_position().unwrap() == 0, "C11: reconciliation left the stream position changed");
    match detected {
        Some(d) => {
            if fam == Some(d) {
                // same family: either spelling selects the same handler family
                assert!(fmt == hint || fmt == d, "C11: hint of the detected family was replaced by another family");
            } else {
                assert!(fmt == d, "C11: a wrong hint overrode the container identified by the bytes");
            }
        }
        None => assert!(fmt == hint, "C11: hint not used although the bytes identify no container"),
    }
    kani::cover!(detected == Some("png") && fam == Some("jpg"), "wrong hint on a PNG");
    kani::cover!(detected == Some("jpg") && fam == Some("jpg") && hint.len() > 3, "MIME hint of the right family");
    kani::cover!(detected.is_none() && fam.is_none(), "nothing known");
    core::mem::forget(fmt);
}

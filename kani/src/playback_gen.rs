#[test]
fn kani_concrete_playback_c27_ipv4_all_addresses_7730926389633453767() {
    let concrete_vals: Vec<Vec<u8>> = vec![
        // 100
        vec![100],
        // 128
        vec![128],
        // 0
        vec![0],
        // 0
        vec![0],
    ];
    kani::concrete_playback_run(concrete_vals, crate::c27::c27_ipv4_all_addresses);
}

// rewritten by /verif/lib/replay.py during a replay; empty otherwise

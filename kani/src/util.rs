//! Shared helpers for harnesses.

/// Build a `String` of symbolic ASCII/bytes content and symbolic length <= N from fixed storage.
/// (Fixed shape x symbolic contents: the idiom that terminates under CBMC.)
#[cfg(kani)]
pub fn any_bytes_vec<const N: usize>(max_len: usize) -> Vec<u8> {
    let arr: [u8; N] = kani::any();
    let len: usize = kani::any();
    kani::assume(len <= max_len && len <= N);
    let mut v = Vec::with_capacity(N);
    v.extend_from_slice(&arr);
    v.truncate(len);
    v
}

/// Trivial harness used by `./check --setup` to force a full build of the crate graph.
#[cfg(kani)]
#[kani::proof]
pub fn setup_probe() {
    let x: u8 = kani::any();
    assert!(x as u16 + 1 > 0);
    kani::cover!(x == 7, "probe reachable");
}

use std::io::{self, Read, Seek, SeekFrom};

/// In-memory stream over fixed storage whose `read` may return *fewer* bytes than requested:
/// every call draws a fresh symbolic count k >= 1 (the chunking schedule is a vector of solver
/// variables).  Optionally fails (io::ErrorKind::Other) at the `fail_at`-th read/seek call.
/// With `short = false` it behaves like `std::io::Cursor`.
pub struct SymStream<const N: usize> {
    pub data: [u8; N],
    pub len: usize,
    pub pos: u64,
    pub short: bool,
    pub calls: usize,
    pub fail_at: Option<usize>,
    pub failed: bool,
    pub short_reads_done: usize,
    /// at most this many reads are short; afterwards every read is full (bounds the schedule)
    pub short_budget: usize,
}

impl<const N: usize> SymStream<N> {
    pub fn new(data: [u8; N], len: usize, short: bool) -> Self {
        SymStream { data, len, pos: 0, short, calls: 0, fail_at: None, failed: false, short_reads_done: 0, short_budget: usize::MAX }
    }

    fn tick(&mut self) -> io::Result<()> {
        let c = self.calls;
        self.calls += 1;
        if self.fail_at == Some(c) {
            self.failed = true;
            return Err(io::Error::from(io::ErrorKind::Other));
        }
        Ok(())
    }
}

#[cfg(kani)]
impl<const N: usize> Read for SymStream<N> {
    fn read(&mut self, buf: &mut [u8]) -> io::Result<usize> {
        self.tick()?;
        let pos = if self.pos > self.len as u64 { self.len } else { self.pos as usize };
        let avail = self.len - pos;
        let mut n = if buf.len() < avail { buf.len() } else { avail };
        if self.short && n > 1 && self.short_reads_done < self.short_budget {
            let k: usize = kani::any();
            kani::assume(k >= 1 && k <= n);
            if k < n {
                self.short_reads_done += 1;
            }
            n = k;
        }
        let mut i = 0;
        while i < n {
            buf[i] = self.data[pos + i];
            i += 1;
        }
        self.pos = (pos + n) as u64;
        Ok(n)
    }
}

impl<const N: usize> Seek for SymStream<N> {
    fn seek(&mut self, s: SeekFrom) -> io::Result<u64> {
        self.tick()?;
        let (base, off) = match s {
            SeekFrom::Start(p) => {
                self.pos = p;
                return Ok(p);
            }
            SeekFrom::End(o) => (self.len as u64, o),
            SeekFrom::Current(o) => (self.pos, o),
        };
        match base.checked_add_signed(off) {
            Some(p) => {
                self.pos = p;
                Ok(p)
            }
            None => Err(io::Error::from(io::ErrorKind::InvalidInput)),
        }
    }
}

/// N arbitrary bytes without a loop over N (tuple of u64 + transmute), N must be a multiple of 8 <= 32.
#[cfg(kani)]
pub fn any_bytes32() -> [u8; 32] {
    let w: (u64, u64, u64, u64) = kani::any();
    unsafe { core::mem::transmute([w.0, w.1, w.2, w.3]) }
}

#[cfg(kani)]
pub fn any_bytes24() -> [u8; 24] {
    let w: (u64, u64, u64) = kani::any();
    unsafe { core::mem::transmute([w.0, w.1, w.2]) }
}

//! Shared helpers for harnesses.

/// Build a `String` of symbolic ASCII/bytes content and symbolic length <= N from fixed storage.
/// (Fixed shape x symbolic contents: the idiom that terminates under CBMC.)
#[cfg(kani)]
pub fn any_bytes_vec<const N: usize>(max_len: usize) -> Vec<u8> {
    let arr: [u8; N] = kani::any();
    let len: usize = kani::any();
    kani::assume(len <= max_len && len <= N);
    let mut v = Vec::with_capacity(N);
    v.extend_from_slice(&arr);
    v.truncate(len);
    v
}

/// Trivial harness used by `./check --setup` to force a full build of the crate graph.
#[cfg(kani)]
#[kani::proof]
pub fn setup_probe() {
    let x: u8 = kani::any();
    assert!(x as u16 + 1 > 0);
    kani::cover!(x == 7, "probe reachable");
}

/// 1.3.133.16.840.63.0.2
pub const OID_KDF_SHA1_SINGLE: Oid<'static> = oid!(1.3.133.16.840.63.0.2);
/// 1.3.6.1.4.1.311.2.1.4
pub const SPC_INDIRECT_DATA_OBJID: Oid<'static> = oid!(1.3.6.1.4.1.311.2.1.4);
/// 1.3.6.1.4.1.311.2.1.11
pub const SPC_STATEMENT_TYPE_OBJID: Oid<'static> = oid!(1.3.6.1.4.1.311.2.1.11);
/// 1.3.6.1.4.1.311.2.1.12
pub const SPC_SP_OPUS_INFO_OBJID: Oid<'static> = oid!(1.3.6.1.4.1.311.2.1.12);
/// 1.3.6.1.4.1.311.2.1.15
pub const SPC_PE_IMAGE_DATA: Oid<'static> = oid!(1.3.6.1.4.1.311.2.1.15);
/// 1.3.6.1.4.1.311.2.1.21
pub const SPC_INDIVIDUAL_SP_KEY_PURPOSE_OBJID : Oid<'static> = oid!(1.3.6.1.4.1.311.2.1.21);
/// 1.3.6.1.4.1.311.10.1
pub const MS_CTL: Oid<'static> = oid!(1.3.6.1.4.1.311.10.1);
/// 1.3.132.0.34
pub const OID_NIST_EC_P384: Oid<'static> = oid!(1.3.132.0.34);
/// 1.3.132.0.35
pub const OID_NIST_EC_P521: Oid<'static> = oid!(1.3.132.0.35);
/// 1.3.14.3.2.25
pub const OID_MD5_WITH_RSA: Oid<'static> = oid!(1.3.14.3.2.25);
/// 1.3.14.3.2.26
pub const OID_HASH_SHA1: Oid<'static> = oid!(1.3.14.3.2.26);
/// 1.3.14.3.2.29
pub const OID_SHA1_WITH_RSA: Oid<'static> = oid!(1.3.14.3.2.29);
/// 2.16.840.1.101.3.4.1.42
pub const OID_NIST_ENC_AES256_CBC: Oid<'static> = oid!(2.16.840.1.101.3.4.1.42);
/// 2.16.840.1.101.3.4.2.1
pub const OID_NIST_HASH_SHA256: Oid<'static> = oid!(2.16.840.1.101.3.4.2.1);
/// 2.16.840.1.101.3.4.2.2
pub const OID_NIST_HASH_SHA384: Oid<'static> = oid!(2.16.840.1.101.3.4.2.2);
/// 2.16.840.1.101.3.4.2.3
pub const OID_NIST_HASH_SHA512: Oid<'static> = oid!(2.16.840.1.101.3.4.2.3);
/// 1.2.840.113549.1.1.1
pub const OID_PKCS1_RSAENCRYPTION: Oid<'static> = oid!(1.2.840.113549.1.1.1);
/// 1.2.840.113549.1.1.2
pub const OID_PKCS1_MD2WITHRSAENC: Oid<'static> = oid!(1.2.840.113549.1.1.2);
/// 1.2.840.113549.1.1.3
pub const OID_PKCS1_MD4WITHRSAENC: Oid<'static> = oid!(1.2.840.113549.1.1.3);
/// 1.2.840.113549.1.1.4
pub const OID_PKCS1_MD5WITHRSAENC: Oid<'static> = oid!(1.2.840.113549.1.1.4);
/// 1.2.840.113549.1.1.5
pub const OID_PKCS1_SHA1WITHRSA: Oid<'static> = oid!(1.2.840.113549.1.1.5);
/// 1.2.840.113549.1.1.10
pub const OID_PKCS1_RSASSAPSS: Oid<'static> = oid!(1.2.840.113549.1.1.10);
/// 1.2.840.113549.1.1.11
pub const OID_PKCS1_SHA256WITHRSA: Oid<'static> = oid!(1.2.840.113549.1.1.11);
/// 1.2.840.113549.1.1.12
pub const OID_PKCS1_SHA384WITHRSA: Oid<'static> = oid!(1.2.840.113549.1.1.12);
/// 1.2.840.113549.1.1.13
pub const OID_PKCS1_SHA512WITHRSA: Oid<'static> = oid!(1.2.840.113549.1.1.13);
/// 1.2.840.113549.1.1.14
pub const OID_PKCS1_SHA224WITHRSA: Oid<'static> = oid!(1.2.840.113549.1.1.14);
/// 1.2.840.113549.1.12
pub const OID_PKCS12: Oid<'static> = oid!(1.2.840.113549.1.12);
/// 1.2.840.113549.1.12.1
pub const OID_PKCS12_PBEIDS: Oid<'static> = oid!(1.2.840.113549.1.12.1);
/// 1.2.840.113549.1.12.1.1
pub const OID_PKCS12_PBE_SHA1_128RC4: Oid<'static> = oid!(1.2.840.113549.1.12.1.1);
/// 1.2.840.113549.1.12.1.2
pub const OID_PKCS12_PBE_SHA1_40RC4: Oid<'static> = oid!(1.2.840.113549.1.12.1.2);
/// 1.2.840.113549.1.12.1.3
pub const OID_PKCS12_PBE_SHA1_3K_3DES_CBC: Oid<'static> = oid!(1.2.840.113549.1.12.1.3);
/// 1.2.840.113549.1.12.1.4
pub const OID_PKCS12_PBE_SHA1_2K_3DES_CBC: Oid<'static> = oid!(1.2.840.113549.1.12.1.4);
/// 1.2.840.113549.1.12.1.5
pub const OID_PKCS12_PBE_SHA1_128RC2_CBC: Oid<'static> = oid!(1.2.840.113549.1.12.1.5);
/// 1.2.840.113549.1.12.1.6
pub const OID_PKCS12_PBE_SHA1_40RC2_CBC: Oid<'static> = oid!(1.2.840.113549.1.12.1.6);
/// 1.2.840.113549.1.7.1
pub const OID_PKCS7_ID_DATA: Oid<'static> = oid!(1.2.840.113549.1.7.1);
/// 1.2.840.113549.1.7.2
pub const OID_PKCS7_ID_SIGNED_DATA: Oid<'static> = oid!(1.2.840.113549.1.7.2);
/// 1.2.840.113549.1.7.3
pub const OID_PKCS7_ID_ENVELOPED_DATA: Oid<'static> = oid!(1.2.840.113549.1.7.3);
/// 1.2.840.113549.1.7.4
pub const OID_PKCS7_ID_SIGNED_ENVELOPED_DATA: Oid<'static> = oid!(1.2.840.113549.1.7.4);
/// 1.2.840.113549.1.7.5
pub const OID_PKCS7_ID_DIGESTED_DATA: Oid<'static> = oid!(1.2.840.113549.1.7.5);
/// 1.2.840.113549.1.7.6
pub const OID_PKCS7_ID_ENCRYPTED_DATA: Oid<'static> = oid!(1.2.840.113549.1.7.6);
/// 1.2.840.113549.1.9.1
pub const OID_PKCS9_EMAIL_ADDRESS: Oid<'static> = oid!(1.2.840.113549.1.9.1);
/// 1.2.840.113549.1.9.2
pub const OID_PKCS9_UNSTRUCTURED_NAME: Oid<'static> = oid!(1.2.840.113549.1.9.2);
/// 1.2.840.113549.1.9.3
pub const OID_PKCS9_CONTENT_TYPE: Oid<'static> = oid!(1.2.840.113549.1.9.3);
/// 1.2.840.113549.1.9.4
pub const OID_PKCS9_ID_MESSAGE_DIGEST: Oid<'static> = oid!(1.2.840.113549.1.9.4);
/// 1.2.840.113549.1.9.5
pub const OID_PKCS9_SIGNING_TIME: Oid<'static> = oid!(1.2.840.113549.1.9.5);
/// 1.2.840.113549.1.9.7
pub const OID_PKCS9_CHALLENGE_PASSWORD: Oid<'static> = oid!(1.2.840.113549.1.9.7);
/// 1.2.840.113549.1.9.14
pub const OID_PKCS9_EXTENSION_REQUEST: Oid<'static> = oid!(1.2.840.113549.1.9.14);
/// 1.2.840.113549.1.9.15
pub const OID_PKCS9_SMIME_CAPABILITIES: Oid<'static> = oid!(1.2.840.113549.1.9.15);
/// 1.2.840.113549.1.9.20
pub const OID_PKCS9_FRIENDLY_NAME: Oid<'static> = oid!(1.2.840.113549.1.9.20);
/// 2.5
pub const OID_X500: Oid<'static> = oid!(2.5);
/// 0.9.2342.19200300.100.1.1
pub const OID_USERID: Oid<'static> = oid!(0.9.2342.19200300.100.1.1);
/// 0.9.2342.19200300.100.1.25
pub const OID_DOMAIN_COMPONENT: Oid<'static> = oid!(0.9.2342.19200300.100.1.25);
/// 1.2.643.2.2.3
pub const OID_SIG_GOST_R3411_94_WITH_R3410_2001: Oid<'static> = oid!(1.2.643.2.2.3);
/// 1.2.643.2.2.19
pub const OID_GOST_R3410_2001: Oid<'static> = oid!(1.2.643.2.2.19);
/// 1.2.643.7.1.1.1.1
pub const OID_KEY_TYPE_GOST_R3410_2012_256: Oid<'static> = oid!(1.2.643.7.1.1.1.1);
/// 1.2.643.7.1.1.1.2
pub const OID_KEY_TYPE_GOST_R3410_2012_512: Oid<'static> = oid!(1.2.643.7.1.1.1.2);
/// 1.2.643.7.1.1.3.2
pub const OID_SIG_GOST_R3410_2012_256: Oid<'static> = oid!(1.2.643.7.1.1.3.2);
/// 1.2.643.7.1.1.3.3
pub const OID_SIG_GOST_R3410_2012_512: Oid<'static> = oid!(1.2.643.7.1.1.3.3);
/// 1.2.840.10040.4.1
pub const OID_KEY_TYPE_DSA: Oid<'static> = oid!(1.2.840.10040.4.1);
/// 1.2.840.10040.4.3
pub const OID_SIG_DSA_WITH_SHA1: Oid<'static> = oid!(1.2.840.10040.4.3);
/// 1.3.36.3.3.1.2
pub const OID_SIG_RSA_RIPE_MD160: Oid<'static> = oid!(1.3.36.3.3.1.2);
/// 1.3.101.112
pub const OID_SIG_ED25519: Oid<'static> = oid!(1.3.101.112);
/// 1.3.101.113
pub const OID_SIG_ED448: Oid<'static> = oid!(1.3.101.113);
/// 1.3.6.1.4.1.311.60.2.1.1
pub const MS_JURISDICTION_LOCALITY: Oid<'static> = oid!(1.3.6.1.4.1.311.60.2.1.1);
/// 1.3.6.1.4.1.311.60.2.1.2
pub const MS_JURISDICTION_STATE_OR_PROVINCE: Oid<'static> = oid!(1.3.6.1.4.1.311.60.2.1.2);
/// 1.3.6.1.4.1.311.60.2.1.3
pub const MS_JURISDICTION_COUNTRY: Oid<'static> = oid!(1.3.6.1.4.1.311.60.2.1.3);
/// 1.3.6.1.4.1.11129.2.4.2
pub const OID_CT_LIST_SCT: Oid<'static> = oid!(1.3.6.1.4.1.11129.2.4.2);
/// 1.3.6.1.5.5.7.1.1
pub const OID_PKIX_AUTHORITY_INFO_ACCESS: Oid<'static> = oid!(1.3.6.1.5.5.7.1.1);
/// 1.3.6.1.5.5.7.1.11
pub const OID_PKIX_SUBJECT_INFO_ACCESS: Oid<'static> = oid!(1.3.6.1.5.5.7.1.11);
/// 1.3.6.1.5.5.7.48.1
pub const OID_PKIX_ACCESS_DESCRIPTOR_OCSP: Oid<'static> = oid!(1.3.6.1.5.5.7.48.1);
/// 1.3.6.1.5.5.7.48.2
pub const OID_PKIX_ACCESS_DESCRIPTOR_CA_ISSUERS: Oid<'static> = oid!(1.3.6.1.5.5.7.48.2);
/// 1.3.6.1.5.5.7.48.3
pub const OID_PKIX_ACCESS_DESCRIPTOR_TIMESTAMPING: Oid<'static> = oid!(1.3.6.1.5.5.7.48.3);
/// 1.3.6.1.5.5.7.48.4
pub const OID_PKIX_ACCESS_DESCRIPTOR_DVCS: Oid<'static> = oid!(1.3.6.1.5.5.7.48.4);
/// 1.3.6.1.5.5.7.48.5
pub const OID_PKIX_ACCESS_DESCRIPTOR_CA_REPOSITORY: Oid<'static> = oid!(1.3.6.1.5.5.7.48.5);
/// 1.3.6.1.5.5.7.48.6
pub const OID_PKIX_ACCESS_DESCRIPTOR_HTTP_CERTS: Oid<'static> = oid!(1.3.6.1.5.5.7.48.6);
/// 1.3.6.1.5.5.7.48.7
pub const OID_PKIX_ACCESS_DESCRIPTOR_HTTP_CRLS: Oid<'static> = oid!(1.3.6.1.5.5.7.48.7);
/// 1.3.6.1.5.5.7.48.10
pub const OID_PKIX_ACCESS_DESCRIPTOR_RPKI_MANIFEST: Oid<'static> = oid!(1.3.6.1.5.5.7.48.10);
/// 1.3.6.1.5.5.7.48.11
pub const OID_PKIX_ACCESS_DESCRIPTOR_SIGNED_OBJECT: Oid<'static> = oid!(1.3.6.1.5.5.7.48.11);
/// 1.3.6.1.5.5.7.48.12
pub const OID_PKIX_ACCESS_DESCRIPTOR_CMC: Oid<'static> = oid!(1.3.6.1.5.5.7.48.12);
/// 1.3.6.1.5.5.7.48.13
pub const OID_PKIX_ACCESS_DESCRIPTOR_RPKI_NOTIFY: Oid<'static> = oid!(1.3.6.1.5.5.7.48.13);
/// 1.3.6.1.5.5.7.48.14
pub const OID_PKIX_ACCESS_DESCRIPTOR_STIRTNLIST: Oid<'static> = oid!(1.3.6.1.5.5.7.48.14);
/// 2.5.4
pub const OID_X509: Oid<'static> = oid!(2.5.4);
/// 2.5.4.0
pub const OID_X509_OBJECT_CLASS: Oid<'static> = oid!(2.5.4.0);
/// 2.5.4.1
pub const OID_X509_ALIASED_ENTRY_NAME: Oid<'static> = oid!(2.5.4.1);
/// 2.5.4.2
pub const OID_X509_KNOWLEDGE_INFORMATION: Oid<'static> = oid!(2.5.4.2);
/// 2.5.4.3
pub const OID_X509_COMMON_NAME: Oid<'static> = oid!(2.5.4.3);
/// 2.5.4.4
pub const OID_X509_SURNAME: Oid<'static> = oid!(2.5.4.4);
/// 2.5.4.5
pub const OID_X509_SERIALNUMBER: Oid<'static> = oid!(2.5.4.5);
/// 2.5.4.6
pub const OID_X509_COUNTRY_NAME: Oid<'static> = oid!(2.5.4.6);
/// 2.5.4.7
pub const OID_X509_LOCALITY_NAME: Oid<'static> = oid!(2.5.4.7);
/// 2.5.4.8
pub const OID_X509_STATE_OR_PROVINCE_NAME: Oid<'static> = oid!(2.5.4.8);
/// 2.5.4.9
pub const OID_X509_STREET_ADDRESS: Oid<'static> = oid!(2.5.4.9);
/// 2.5.4.10
pub const OID_X509_ORGANIZATION_NAME: Oid<'static> = oid!(2.5.4.10);
/// 2.5.4.11
pub const OID_X509_ORGANIZATIONAL_UNIT: Oid<'static> = oid!(2.5.4.11);
/// 2.5.4.12
pub const OID_X509_TITLE: Oid<'static> = oid!(2.5.4.12);
/// 2.5.4.13
pub const OID_X509_DESCRIPTION: Oid<'static> = oid!(2.5.4.13);
/// 2.5.4.14
pub const OID_X509_SEARCH_GUIDE: Oid<'static> = oid!(2.5.4.14);
/// 2.5.4.15
pub const OID_X509_BUSINESS_CATEGORY: Oid<'static> = oid!(2.5.4.15);
/// 2.5.4.16
pub const OID_X509_POSTAL_ADDRESS: Oid<'static> = oid!(2.5.4.16);
/// 2.5.4.17
pub const OID_X509_POSTAL_CODE: Oid<'static> = oid!(2.5.4.17);
/// 2.5.4.41
pub const OID_X509_NAME: Oid<'static> = oid!(2.5.4.41);
/// 2.5.4.42
pub const OID_X509_GIVEN_NAME: Oid<'static> = oid!(2.5.4.42);
/// 2.5.4.43
pub const OID_X509_INITIALS: Oid<'static> = oid!(2.5.4.43);
/// 2.5.4.44
pub const OID_X509_GENERATION_QUALIFIER: Oid<'static> = oid!(2.5.4.44);
/// 2.5.4.45
pub const OID_X509_UNIQUE_IDENTIFIER: Oid<'static> = oid!(2.5.4.45);
/// 2.5.4.46
pub const OID_X509_DN_QUALIFIER: Oid<'static> = oid!(2.5.4.46);
/// 2.5.29.1
pub const OID_X509_OBSOLETE_AUTHORITY_KEY_IDENTIFIER: Oid<'static> = oid!(2.5.29.1);
/// 2.5.29.2
pub const OID_X509_OBSOLETE_KEY_ATTRIBUTES: Oid<'static> = oid!(2.5.29.2);
/// 2.5.29.3
pub const OID_X509_OBSOLETE_CERTIFICATE_POLICIES: Oid<'static> = oid!(2.5.29.3);
/// 2.5.29.4
pub const OID_X509_OBSOLETE_KEY_USAGE: Oid<'static> = oid!(2.5.29.4);
/// 2.5.29.5
pub const OID_X509_OBSOLETE_POLICY_MAPPING: Oid<'static> = oid!(2.5.29.5);
/// 2.5.29.6
pub const OID_X509_OBSOLETE_SUBTREES_CONSTRAINT: Oid<'static> = oid!(2.5.29.6);
/// 2.5.29.7
pub const OID_X509_OBSOLETE_SUBJECT_ALT_NAME: Oid<'static> = oid!(2.5.29.7);
/// 2.5.29.8
pub const OID_X509_OBSOLETE_ISSUER_ALT_NAME: Oid<'static> = oid!(2.5.29.8);
/// 2.5.29.14
pub const OID_X509_EXT_SUBJECT_KEY_IDENTIFIER: Oid<'static> = oid!(2.5.29.14);
/// 2.5.29.15
pub const OID_X509_EXT_KEY_USAGE: Oid<'static> = oid!(2.5.29.15);
/// 2.5.29.16
pub const OID_X509_EXT_PRIVATE_KEY_USAGE_PERIOD: Oid<'static> = oid!(2.5.29.16);
/// 2.5.29.17
pub const OID_X509_EXT_SUBJECT_ALT_NAME: Oid<'static> = oid!(2.5.29.17);
/// 2.5.29.18
pub const OID_X509_EXT_ISSUER_ALT_NAME: Oid<'static> = oid!(2.5.29.18);
/// 2.5.29.19
pub const OID_X509_EXT_BASIC_CONSTRAINTS: Oid<'static> = oid!(2.5.29.19);
/// 2.5.29.20
pub const OID_X509_EXT_CRL_NUMBER: Oid<'static> = oid!(2.5.29.20);
/// 2.5.29.21
pub const OID_X509_EXT_REASON_CODE: Oid<'static> = oid!(2.5.29.21);
/// 2.5.29.23
pub const OID_X509_EXT_HOLD_INSTRUCTION_CODE: Oid<'static> = oid!(2.5.29.23);
/// 2.5.29.24
pub const OID_X509_EXT_INVALIDITY_DATE: Oid<'static> = oid!(2.5.29.24);
/// 2.5.29.27
pub const OID_X509_EXT_DELTA_CRL_INDICATOR: Oid<'static> = oid!(2.5.29.27);
/// 2.5.29.28
pub const OID_X509_EXT_ISSUER_DISTRIBUTION_POINT: Oid<'static> = oid!(2.5.29.28);
/// 2.5.29.29
pub const OID_X509_EXT_ISSUER: Oid<'static> = oid!(2.5.29.29);
/// 2.5.29.30
pub const OID_X509_EXT_NAME_CONSTRAINTS: Oid<'static> = oid!(2.5.29.30);
/// 2.5.29.31
pub const OID_X509_EXT_CRL_DISTRIBUTION_POINTS: Oid<'static> = oid!(2.5.29.31);
/// 2.5.29.32
pub const OID_X509_EXT_CERTIFICATE_POLICIES: Oid<'static> = oid!(2.5.29.32);
/// 2.5.29.33
pub const OID_X509_EXT_POLICY_MAPPINGS: Oid<'static> = oid!(2.5.29.33);
/// 2.5.29.35
pub const OID_X509_EXT_AUTHORITY_KEY_IDENTIFIER: Oid<'static> = oid!(2.5.29.35);
/// 2.5.29.36
pub const OID_X509_EXT_POLICY_CONSTRAINTS: Oid<'static> = oid!(2.5.29.36);
/// 2.5.29.37
pub const OID_X509_EXT_EXTENDED_KEY_USAGE: Oid<'static> = oid!(2.5.29.37);
/// 2.5.29.46
pub const OID_X509_EXT_FRESHEST_CRL: Oid<'static> = oid!(2.5.29.46);
/// 2.5.29.54
pub const OID_X509_EXT_INHIBIT_ANY_POLICY: Oid<'static> = oid!(2.5.29.54);
/// 2.16.840.1.113730.1.1
pub const OID_X509_EXT_CERT_TYPE: Oid<'static> = oid!(2.16.840.1.113730.1.1);
/// 2.16.840.1.113730.1.2
pub const OID_X509_EXT_BASE_URL: Oid<'static> = oid!(2.16.840.1.113730.1.2);
/// 2.16.840.1.113730.1.3
pub const OID_X509_EXT_REVOCATION_URL: Oid<'static> = oid!(2.16.840.1.113730.1.3);
/// 2.16.840.1.113730.1.4
pub const OID_X509_EXT_CA_REVOCATION_URL: Oid<'static> = oid!(2.16.840.1.113730.1.4);
/// 2.16.840.1.113730.1.5
pub const OID_X509_EXT_CA_CRL_URL: Oid<'static> = oid!(2.16.840.1.113730.1.5);
/// 2.16.840.1.113730.1.6
pub const OID_X509_EXT_CA_CERT_URL: Oid<'static> = oid!(2.16.840.1.113730.1.6);
/// 2.16.840.1.113730.1.7
pub const OID_X509_EXT_RENEWAL_URL: Oid<'static> = oid!(2.16.840.1.113730.1.7);
/// 2.16.840.1.113730.1.8
pub const OID_X509_EXT_CA_POLICY_URL: Oid<'static> = oid!(2.16.840.1.113730.1.8);
/// 2.16.840.1.113730.1.9
pub const OID_X509_EXT_HOMEPAGE_URL: Oid<'static> = oid!(2.16.840.1.113730.1.9);
/// 2.16.840.1.113730.1.10
pub const OID_X509_EXT_ENTITY_LOGO: Oid<'static> = oid!(2.16.840.1.113730.1.10);
/// 2.16.840.1.113730.1.11
pub const OID_X509_EXT_USER_PICTURE: Oid<'static> = oid!(2.16.840.1.113730.1.11);
/// 2.16.840.1.113730.1.12
pub const OID_X509_EXT_SSL_SERVER_NAME: Oid<'static> = oid!(2.16.840.1.113730.1.12);
/// 2.16.840.1.113730.1.13
pub const OID_X509_EXT_CERT_COMMENT: Oid<'static> = oid!(2.16.840.1.113730.1.13);
/// 1.2.840.10045.2.1
pub const OID_KEY_TYPE_EC_PUBLIC_KEY: Oid<'static> = oid!(1.2.840.10045.2.1);
/// 1.2.840.10045.4.3.1
pub const OID_SIG_ECDSA_WITH_SHA224: Oid<'static> = oid!(1.2.840.10045.4.3.1);
/// 1.2.840.10045.4.3.2
pub const OID_SIG_ECDSA_WITH_SHA256: Oid<'static> = oid!(1.2.840.10045.4.3.2);
/// 1.2.840.10045.4.3.3
pub const OID_SIG_ECDSA_WITH_SHA384: Oid<'static> = oid!(1.2.840.10045.4.3.3);
/// 1.2.840.10045.4.3.4
pub const OID_SIG_ECDSA_WITH_SHA512: Oid<'static> = oid!(1.2.840.10045.4.3.4);
/// 1.2.840.10045.3.1.7
pub const OID_EC_P256: Oid<'static> = oid!(1.2.840.10045.3.1.7);

#[cfg(feature = "registry")]
#[cfg_attr(docsrs, doc(cfg(feature = "registry")))]
impl OidRegistry<'_> {
    #[cfg(feature = "kdf")]
    #[cfg_attr(docsrs, doc(cfg(feature = "kdf")))]
    #[doc = "Load all known OIDs for feature `kdf` in the registry."]
    pub fn with_kdf(mut self) -> Self {
        self.insert(oid!(1.3.133.16.840.63.0.2), OidEntry::new("dhSinglePass-stdDH-sha1kdf-scheme", "Single pass Secure Hash Algorithm 1 (SHA1) key derivation"));
        self
    }

    #[cfg(feature = "ms_spc")]
    #[cfg_attr(docsrs, doc(cfg(feature = "ms_spc")))]
    #[doc = "Load all known OIDs for feature `ms_spc` in the registry."]
    pub fn with_ms_spc(mut self) -> Self {
        self.insert(oid!(1.3.6.1.4.1.311.2.1.4), OidEntry::new("spcIndirectData", "The SPC_INDIRECT_DATA_CONTENT structure is used in Authenticode signatures to store the digest and other attributes of the signed file"));
        self.insert(oid!(1.3.6.1.4.1.311.2.1.11), OidEntry::new("spcStatementType", "spcStatementType"));
        self.insert(oid!(1.3.6.1.4.1.311.2.1.12), OidEntry::new("spcSpOpusInfo", "SpcSpOpusInfo"));
        self.insert(oid!(1.3.6.1.4.1.311.2.1.15), OidEntry::new("spcPEImageData", "spcPEImageData"));
        self.insert(oid!(1.3.6.1.4.1.311.2.1.21), OidEntry::new("msCodeInd", "MsCodeInd (SPC_INDIVIDUAL_SP_KEY_PURPOSE_OBJID) is a ExtendedKeyUsage for Certificate Extensions which indicates Microsoft Individual Code Signing (authenticode)"));
        self.insert(oid!(1.3.6.1.4.1.311.10.1), OidEntry::new("szOID_CTL", "MS_CTL"));
        self
    }

    #[cfg(feature = "nist_algs")]
    #[cfg_attr(docsrs, doc(cfg(feature = "nist_algs")))]
    #[doc = "Load all known OIDs for feature `nist_algs` in the registry."]
    pub fn with_nist_algs(mut self) -> Self {
        self.insert(oid!(1.3.132.0.34), OidEntry::new("secp384r1", "P-384 elliptic curve parameter"));
        self.insert(oid!(1.3.132.0.35), OidEntry::new("secp521r1", "P-521 elliptic curve parameter"));
        self.insert(oid!(1.3.14.3.2.25), OidEntry::new("md5WithRSASignature", "RSA algorithm coupled with the MD5 hashing algorithm (Oddball using ISO/IEC 9796-2 padding rules)"));
        self.insert(oid!(1.3.14.3.2.26), OidEntry::new("id-SHA1", "SHA-1 hash algorithm"));
        self.insert(oid!(1.3.14.3.2.29), OidEntry::new("sha1WithRSAEncryption", "RSA algorithm that uses the Secure Hash Algorithm 1 (SHA1) (obsolete)"));
        self.insert(oid!(2.16.840.1.101.3.4.1.42), OidEntry::new("aes-256-cbc", "256-bit Advanced Encryption Standard (AES) algorithm with Cipher-Block Chaining (CBC) mode of operation"));
        self.insert(oid!(2.16.840.1.101.3.4.2.1), OidEntry::new("sha256", "Secure Hash Algorithm that uses a 256 bit key (SHA256)"));
        self.insert(oid!(2.16.840.1.101.3.4.2.2), OidEntry::new("sha384", "Secure Hash Algorithm that uses a 384 bit key (SHA384)"));
        self.insert(oid!(2.16.840.1.101.3.4.2.3), OidEntry::new("sha512", "Secure Hash Algorithm that uses a 512 bit key (SHA512)"));
        self
    }

    #[cfg(feature = "pkcs1")]
    #[cfg_attr(docsrs, doc(cfg(feature = "pkcs1")))]
    #[doc = "Load all known OIDs for feature `pkcs1` in the registry."]
    pub fn with_pkcs1(mut self) -> Self {
        self.insert(oid!(1.2.840.113549.1.1.1), OidEntry::new("rsaEncryption", "RSAES-PKCS1-v1_5 encryption scheme"));
        self.insert(oid!(1.2.840.113549.1.1.2), OidEntry::new("md2WithRSAEncryption", "MD2 with RSA encryption"));
        self.insert(oid!(1.2.840.113549.1.1.3), OidEntry::new("md4WithRSAEncryption", "MD4 with RSA encryption"));
        self.insert(oid!(1.2.840.113549.1.1.4), OidEntry::new("md5WithRSAEncryption", "MD5 with RSA encryption"));
        self.insert(oid!(1.2.840.113549.1.1.5), OidEntry::new("sha1WithRSAEncryption", "SHA1 with RSA encryption"));
        self.insert(oid!(1.2.840.113549.1.1.10), OidEntry::new("rsassa-pss", "RSA Signature Scheme with Probabilistic Signature Scheme (RSASSA-PSS)"));
        self.insert(oid!(1.2.840.113549.1.1.11), OidEntry::new("sha256WithRSAEncryption", "SHA256 with RSA encryption"));
        self.insert(oid!(1.2.840.113549.1.1.12), OidEntry::new("sha384WithRSAEncryption", "SHA384 with RSA encryption"));
        self.insert(oid!(1.2.840.113549.1.1.13), OidEntry::new("sha512WithRSAEncryption", "SHA512 with RSA encryption"));
        self.insert(oid!(1.2.840.113549.1.1.14), OidEntry::new("sha224WithRSAEncryption", "SHA224 with RSA encryption"));
        self
    }

    #[cfg(feature = "pkcs12")]
    #[cfg_attr(docsrs, doc(cfg(feature = "pkcs12")))]
    #[doc = "Load all known OIDs for feature `pkcs12` in the registry."]
    pub fn with_pkcs12(mut self) -> Self {
        self.insert(oid!(1.2.840.113549.1.12), OidEntry::new("pkcs-12", "Public-Key Cryptography Standard (PKCS) #12"));
        self.insert(oid!(1.2.840.113549.1.12.1), OidEntry::new("pkcs-12PbeIds", "PKCS #12 Password Based Encryption IDs"));
        self.insert(oid!(1.2.840.113549.1.12.1.1), OidEntry::new("pbeWithSHAAnd128BitRC4", "PKCS #12 Password Based Encryption With SHA-1 and 128-bit RC4"));
        self.insert(oid!(1.2.840.113549.1.12.1.2), OidEntry::new("pbeWithSHAAnd40BitRC4", "PKCS #12 Password Based Encryption With SHA-1 and 40-bit RC4"));
        self.insert(oid!(1.2.840.113549.1.12.1.3), OidEntry::new("pbeWithSHAAnd3-KeyTripleDES-CBC", "PKCS #12 Password Based Encryption With SHA-1 and 3-key Triple DES in CBC mode"));
        self.insert(oid!(1.2.840.113549.1.12.1.4), OidEntry::new("pbeWithSHAAnd2-KeyTripleDES-CBC", "PKCS #12 Password Based Encryption With SHA-1 and 2-key Triple DES in CBC mode"));
        self.insert(oid!(1.2.840.113549.1.12.1.5), OidEntry::new("pbeWithSHAAnd128BitRC2-CBC", "PKCS #12 Password Based Encryption With SHA-1 and 128-bit RC2-CBC"));
        self.insert(oid!(1.2.840.113549.1.12.1.6), OidEntry::new("pbeWithSHAAnd40BitRC2-CBC", "PKCS #12 Password Based Encryption With SHA-1 and 40-bit RC2-CBC"));
        self
    }

    #[cfg(feature = "pkcs7")]
    #[cfg_attr(docsrs, doc(cfg(feature = "pkcs7")))]
    #[doc = "Load all known OIDs for feature `pkcs7` in the registry."]
    pub fn with_pkcs7(mut self) -> Self {
        self.insert(oid!(1.2.840.113549.1.7.1), OidEntry::new("pkcs7-data", "pkcs7-data"));
        self.insert(oid!(1.2.840.113549.1.7.2), OidEntry::new("pkcs7-signedData", "PKCS#7 Signed Data"));
        self.insert(oid!(1.2.840.113549.1.7.3), OidEntry::new("pkcs7-envelopedData", "PKCS#7 Enveloped Data"));
        self.insert(oid!(1.2.840.113549.1.7.4), OidEntry::new("pkcs7-signedAndEnvelopedData", "PKCS#7 Signed and Enveloped Data"));
        self.insert(oid!(1.2.840.113549.1.7.5), OidEntry::new("pkcs7-digestedData", "PKCS#7 Digested Data"));
        self.insert(oid!(1.2.840.113549.1.7.6), OidEntry::new("pkcs7-encryptedData", "PKCS#7 Encrypted Data"));
        self
    }

    #[cfg(feature = "pkcs9")]
    #[cfg_attr(docsrs, doc(cfg(feature = "pkcs9")))]
    #[doc = "Load all known OIDs for feature `pkcs9` in the registry."]
    pub fn with_pkcs9(mut self) -> Self {
        self.insert(oid!(1.2.840.113549.1.9.1), OidEntry::new("emailAddress", "Email Address attribute for use in signatures"));
        self.insert(oid!(1.2.840.113549.1.9.2), OidEntry::new("unstructuredName", "PKCS#9 unstructuredName"));
        self.insert(oid!(1.2.840.113549.1.9.3), OidEntry::new("contentType", "id-contentType"));
        self.insert(oid!(1.2.840.113549.1.9.4), OidEntry::new("id-messageDigest", "id-messageDigest"));
        self.insert(oid!(1.2.840.113549.1.9.5), OidEntry::new("signing-time", "id-signingTime"));
        self.insert(oid!(1.2.840.113549.1.9.7), OidEntry::new("challengePassword", "PKCS #9 challenge password (as specified for PKSC#10 in RFC2986)"));
        self.insert(oid!(1.2.840.113549.1.9.14), OidEntry::new("extensionRequest", "Extension list for Certification Requests"));
        self.insert(oid!(1.2.840.113549.1.9.15), OidEntry::new("smimeCapabilities", "aa-smimeCapabilities"));
        self.insert(oid!(1.2.840.113549.1.9.20), OidEntry::new("friendlyName", "PKCS #9 attribute friendlyName (for PKCS #12)"));
        self
    }

    #[cfg(feature = "x500")]
    #[cfg_attr(docsrs, doc(cfg(feature = "x500")))]
    #[doc = "Load all known OIDs for feature `x500` in the registry."]
    pub fn with_x500(mut self) -> Self {
        self.insert(oid!(2.5), OidEntry::new("x500", "X.500"));
        self
    }

    #[cfg(feature = "x509")]
    #[cfg_attr(docsrs, doc(cfg(feature = "x509")))]
    #[doc = "Load all known OIDs for feature `x509` in the registry."]
    pub fn with_x509(mut self) -> Self {
        self.insert(oid!(0.9.2342.19200300.100.1.1), OidEntry::new("uid", "User ID"));
        self.insert(oid!(0.9.2342.19200300.100.1.25), OidEntry::new("domainComponent", "Domain component"));
        self.insert(oid!(1.2.643.2.2.3), OidEntry::new("id-GostR3411-94-with-GostR3410-2001", "GOST R 3411-94 with GOST R 3410-2001"));
        self.insert(oid!(1.2.643.2.2.19), OidEntry::new("gostR3410-2001", "GOST R 34.10-2001"));
        self.insert(oid!(1.2.643.7.1.1.1.1), OidEntry::new("gost3410-2012-256", "GOST R 34.10-2012 public keys with 256 bits private key length"));
        self.insert(oid!(1.2.643.7.1.1.1.2), OidEntry::new("gost3410-2012-512", "GOST R 34.10-2012 public keys with 512 bits private key length"));
        self.insert(oid!(1.2.643.7.1.1.3.2), OidEntry::new("id-tc26-signwithdigest-gost3410-12-256", "GOST R 34.10-2012 signature algorithm with 256-bit key length and GOST R 34.11-2012 hash function with 256-bit hash code"));
        self.insert(oid!(1.2.643.7.1.1.3.3), OidEntry::new("id-tc26-signwithdigest-gost3410-12-512", "GOST R 34.10-2012 signature algorithm with 512-bit key length and GOST R 34.11-2012 hash function with 512-bit hash code"));
        self.insert(oid!(1.2.840.10040.4.1), OidEntry::new("id-dsa", "DSA subject public key"));
        self.insert(oid!(1.2.840.10040.4.3), OidEntry::new("dsa-with-sha1", "DSA signature generated with SHA-1 algorithm"));
        self.insert(oid!(1.3.36.3.3.1.2), OidEntry::new("rsaSignatureWithripemd160", "RSA signature in combination with hash algorithm RIPEMD-160"));
        self.insert(oid!(1.3.101.112), OidEntry::new("ed25519", "Edwards-curve Digital Signature Algorithm (EdDSA) Ed25519"));
        self.insert(oid!(1.3.101.113), OidEntry::new("ed448", "Edwards-curve Digital Signature Algorithm (EdDSA) Ed448"));
        self.insert(oid!(1.3.6.1.4.1.311.60.2.1.1), OidEntry::new("msJurisdictionLocality", "X520LocalityName as specified in RFC 3280"));
        self.insert(oid!(1.3.6.1.4.1.311.60.2.1.2), OidEntry::new("msJurisdictionStateOrProvince", "X520StateOrProvinceName as specified in RFC 3280"));
        self.insert(oid!(1.3.6.1.4.1.311.60.2.1.3), OidEntry::new("msJurisdictionCountry", "X520countryName as specified in RFC 3280"));
        self.insert(oid!(1.3.6.1.4.1.11129.2.4.2), OidEntry::new("ctSCTList", "Certificate Transparency Signed Certificate Timestamp List"));
        self.insert(oid!(1.3.6.1.5.5.7.1.1), OidEntry::new("authorityInfoAccess", "Certificate Authority Information Access"));
        self.insert(oid!(1.3.6.1.5.5.7.1.11), OidEntry::new("subjectInfoAccess", "Certificate Subject Information Access"));
        self.insert(oid!(1.3.6.1.5.5.7.48.1), OidEntry::new("id-ad-ocsp", "PKIX Access Descriptor OCSP"));
        self.insert(oid!(1.3.6.1.5.5.7.48.2), OidEntry::new("id-ad-caIssuers", "PKIX Access Descriptor CA Issuers"));
        self.insert(oid!(1.3.6.1.5.5.7.48.3), OidEntry::new("id-ad-timestamping", "PKIX Access Descriptor Timestamping"));
        self.insert(oid!(1.3.6.1.5.5.7.48.4), OidEntry::new("id-ad-dvcs", "PKIX Access Descriptor DVCS"));
        self.insert(oid!(1.3.6.1.5.5.7.48.5), OidEntry::new("id-ad-caRepository", "PKIX Access Descriptor CA Repository"));
        self.insert(oid!(1.3.6.1.5.5.7.48.6), OidEntry::new("id-ad-http-certs", "PKIX Access Descriptor HTTP Certificates"));
        self.insert(oid!(1.3.6.1.5.5.7.48.7), OidEntry::new("id-ad-http-crls", "PKIX Access Descriptor HTTP Certificate Revocation Lists"));
        self.insert(oid!(1.3.6.1.5.5.7.48.10), OidEntry::new("id-ad-rpki-manifest", "PKIX Access Descriptor RPKI Manifest"));
        self.insert(oid!(1.3.6.1.5.5.7.48.11), OidEntry::new("id-ad-signed-object", "PKIX Access Descriptor Signed Object"));
        self.insert(oid!(1.3.6.1.5.5.7.48.12), OidEntry::new("id-ad-cmc", "PKIX Access Descriptor CMC"));
        self.insert(oid!(1.3.6.1.5.5.7.48.13), OidEntry::new("id-ad-rpki-notify", "PKIX Access Descriptor RPKI Notify"));
        self.insert(oid!(1.3.6.1.5.5.7.48.14), OidEntry::new("id-ad-stirTNList", "PKIX Access Descriptor STIRTNLIST"));
        self.insert(oid!(2.5.4), OidEntry::new("x509", "X.509"));
        self.insert(oid!(2.5.4.0), OidEntry::new("objectClass", "Object classes"));
        self.insert(oid!(2.5.4.1), OidEntry::new("aliasedEntryName", "Aliased entry/object name"));
        self.insert(oid!(2.5.4.2), OidEntry::new("knowledgeInformation", "'knowledgeInformation' attribute type"));
        self.insert(oid!(2.5.4.3), OidEntry::new("commonName", "Common Name"));
        self.insert(oid!(2.5.4.4), OidEntry::new("surname", "Surname"));
        self.insert(oid!(2.5.4.5), OidEntry::new("serialNumber", "Serial Number"));
        self.insert(oid!(2.5.4.6), OidEntry::new("countryName", "Country Name"));
        self.insert(oid!(2.5.4.7), OidEntry::new("localityName", "Locality Name"));
        self.insert(oid!(2.5.4.8), OidEntry::new("stateOrProvinceName", "State or Province name"));
        self.insert(oid!(2.5.4.9), OidEntry::new("streetAddress", "Street Address"));
        self.insert(oid!(2.5.4.10), OidEntry::new("organizationName", "Organization Name"));
        self.insert(oid!(2.5.4.11), OidEntry::new("organizationalUnit", "Organizational Unit"));
        self.insert(oid!(2.5.4.12), OidEntry::new("title", "Title"));
        self.insert(oid!(2.5.4.13), OidEntry::new("description", "Description"));
        self.insert(oid!(2.5.4.14), OidEntry::new("searchGuide", "Search Guide"));
        self.insert(oid!(2.5.4.15), OidEntry::new("businessCategory", "Business Category"));
        self.insert(oid!(2.5.4.16), OidEntry::new("postalAddress", "Postal Address"));
        self.insert(oid!(2.5.4.17), OidEntry::new("postalCode", "Postal Code"));
        self.insert(oid!(2.5.4.41), OidEntry::new("name", "Name"));
        self.insert(oid!(2.5.4.42), OidEntry::new("givenName", "Given Name"));
        self.insert(oid!(2.5.4.43), OidEntry::new("initials", "Initials of an individual's name"));
        self.insert(oid!(2.5.4.44), OidEntry::new("generationQualifier", "Generation information to qualify an individual's name"));
        self.insert(oid!(2.5.4.45), OidEntry::new("uniqueIdentifier", "Unique Identifier"));
        self.insert(oid!(2.5.4.46), OidEntry::new("dnQualifier", "DN Qualifier"));
        self.insert(oid!(2.5.29.1), OidEntry::new("oldAuthorityKeyIdentifier", "X509v3 Authority Key Identifier (obsolete)"));
        self.insert(oid!(2.5.29.2), OidEntry::new("oldKeyAttributes", "X509v3 Key Attributes (obsolete)"));
        self.insert(oid!(2.5.29.3), OidEntry::new("oldCertificatePolicies", "X509v3 Certificate Policies (obsolete)"));
        self.insert(oid!(2.5.29.4), OidEntry::new("oldKeyUsage", "X509v3 Key Usage Restriction (obsolete)"));
        self.insert(oid!(2.5.29.5), OidEntry::new("oldPolicyMapping", "X509v3 Policy Mapping (obsolete)"));
        self.insert(oid!(2.5.29.6), OidEntry::new("oldSubtreesConstraint", "X509v3 Subtrees Constraint (obsolete)"));
        self.insert(oid!(2.5.29.7), OidEntry::new("oldSubjectAltNAme", "X509v3 Subject Alternative Name (obsolete)"));
        self.insert(oid!(2.5.29.8), OidEntry::new("oldIssuerAltNAme", "X509v3 Issuer Alternative Name (obsolete)"));
        self.insert(oid!(2.5.29.14), OidEntry::new("subjectKeyIdentifier", "X509v3 Subject Key Identifier"));
        self.insert(oid!(2.5.29.15), OidEntry::new("keyUsage", "X509v3 Key Usage"));
        self.insert(oid!(2.5.29.16), OidEntry::new("privateKeyUsagePeriod", "X509v3 Private Key Usage Period"));
        self.insert(oid!(2.5.29.17), OidEntry::new("subjectAltName", "X509v3 Subject Alternative Name"));
        self.insert(oid!(2.5.29.18), OidEntry::new("issuerAltName", "X509v3 Issuer Alternative Name"));
        self.insert(oid!(2.5.29.19), OidEntry::new("basicConstraints", "X509v3 Basic Constraints"));
        self.insert(oid!(2.5.29.20), OidEntry::new("crlNumber", "X509v3 CRL Number"));
        self.insert(oid!(2.5.29.21), OidEntry::new("reasonCode", "X509v3 Reason Code"));
        self.insert(oid!(2.5.29.23), OidEntry::new("holdInstructionCode", "X509v3 Hold Instruction Code"));
        self.insert(oid!(2.5.29.24), OidEntry::new("invalidityDate", "X509v3 Invalidity Date"));
        self.insert(oid!(2.5.29.27), OidEntry::new("deltaCRLIndicator", "X509v3 Delta CRL Indicator"));
        self.insert(oid!(2.5.29.28), OidEntry::new("issuerDistributionPoint", "X509v3 Issuer Distribution Point"));
        self.insert(oid!(2.5.29.29), OidEntry::new("issuer", "X509v3 Issuer"));
        self.insert(oid!(2.5.29.30), OidEntry::new("nameConstraints", "X509v3 Name Constraints"));
        self.insert(oid!(2.5.29.31), OidEntry::new("crlDistributionPoints", "X509v3 CRL Distribution Points"));
        self.insert(oid!(2.5.29.32), OidEntry::new("certificatePolicies", "X509v3 Certificate Policies"));
        self.insert(oid!(2.5.29.33), OidEntry::new("policyMappings", "X509v3 Policy Mappings"));
        self.insert(oid!(2.5.29.35), OidEntry::new("authorityKeyIdentifier", "X509v3 Authority Key Identifier"));
        self.insert(oid!(2.5.29.36), OidEntry::new("policyConstraints", "X509v3 Policy Constraints"));
        self.insert(oid!(2.5.29.37), OidEntry::new("extendedKeyUsage", "X509v3 Extended Key Usage"));
        self.insert(oid!(2.5.29.46), OidEntry::new("freshestCRL", "X509v3 Freshest CRL"));
        self.insert(oid!(2.5.29.54), OidEntry::new("inhibitAnyPolicy", "X509v3 Inhibit Any-policy"));
        self.insert(oid!(2.16.840.1.113730.1.1), OidEntry::new("nsCertType", "X.509 v3 Certificate Type"));
        self.insert(oid!(2.16.840.1.113730.1.2), OidEntry::new("nsBaseURL", "Base URL"));
        self.insert(oid!(2.16.840.1.113730.1.3), OidEntry::new("nsRevocationURL", "Revocation URL"));
        self.insert(oid!(2.16.840.1.113730.1.4), OidEntry::new("nsCARevocationURL", "CA Revocation URL"));
        self.insert(oid!(2.16.840.1.113730.1.5), OidEntry::new("nsCACRLURL", "CA CRL URL"));
        self.insert(oid!(2.16.840.1.113730.1.6), OidEntry::new("nsCACertURL", "CA Certificate URL"));
        self.insert(oid!(2.16.840.1.113730.1.7), OidEntry::new("nsRenewalURL", "Renewal URL"));
        self.insert(oid!(2.16.840.1.113730.1.8), OidEntry::new("nsCAPolicyURL", "CA Policy URL"));
        self.insert(oid!(2.16.840.1.113730.1.9), OidEntry::new("nsHomepageURL", "Certificate Homepage URL"));
        self.insert(oid!(2.16.840.1.113730.1.10), OidEntry::new("nsEntityLogo", "Certificate Entity Logo"));
        self.insert(oid!(2.16.840.1.113730.1.11), OidEntry::new("nsUserPicture", "Certificate User Picture"));
        self.insert(oid!(2.16.840.1.113730.1.12), OidEntry::new("nsSSLServerName", "SSL Server Name"));
        self.insert(oid!(2.16.840.1.113730.1.13), OidEntry::new("nsComment", "Certificate Comment"));
        self
    }

    #[cfg(feature = "x962")]
    #[cfg_attr(docsrs, doc(cfg(feature = "x962")))]
    #[doc = "Load all known OIDs for feature `x962` in the registry."]
    pub fn with_x962(mut self) -> Self {
        self.insert(oid!(1.2.840.10045.2.1), OidEntry::new("id-ecPublicKey", "Elliptic curve public key cryptography"));
        self.insert(oid!(1.2.840.10045.4.3.1), OidEntry::new("ecdsa-with-SHA224", "Elliptic curve Digital Signature Algorithm (DSA) coupled with the Secure Hash Algorithm 224 (SHA224) algorithm"));
        self.insert(oid!(1.2.840.10045.4.3.2), OidEntry::new("ecdsa-with-SHA256", "Elliptic curve Digital Signature Algorithm (DSA) coupled with the Secure Hash Algorithm 256 (SHA256) algorithm"));
        self.insert(oid!(1.2.840.10045.4.3.3), OidEntry::new("ecdsa-with-SHA384", "Elliptic curve Digital Signature Algorithm (DSA) coupled with the Secure Hash Algorithm 384 (SHA384) algorithm"));
        self.insert(oid!(1.2.840.10045.4.3.4), OidEntry::new("ecdsa-with-SHA512", "Elliptic curve Digital Signature Algorithm (DSA) coupled with the Secure Hash Algorithm 512 (SHA512) algorithm"));
        self.insert(oid!(1.2.840.10045.3.1.7), OidEntry::new("prime256v1", "P-256 elliptic curve parameter"));
        self
    }

}

#[doc(hidden)]
pub mod __private18 {
    #[doc(hidden)]
    pub use crate::private::*;
}

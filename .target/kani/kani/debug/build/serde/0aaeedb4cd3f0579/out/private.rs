#[doc(hidden)]
pub mod __private229 {
    #[doc(hidden)]
    pub use crate::private::*;
}
use serde_core::__private229 as serde_core_private;

#!/usr/bin/env python3
"""append cfg-guarded hook exposing Context::check_progress (C23 native replay)"""
p = "/repo/sdk/src/context.rs"
s = open(p).read()
if "verif_check_progress" not in s:
    if not s.endswith("\n"):
        s += "\n"
    s += '''
/// Verification hooks (compiled only with `--cfg contentauth_c2pa_rs_verif`).
#[cfg(contentauth_c2pa_rs_verif)]
#[doc(hidden)]
impl Context {
    /// Public access to the crate-private progress/cancellation checkpoint.
    pub fn verif_check_progress(&self, step: u32, total: u32) -> Result<()> {
        self.check_progress(ProgressPhase::Hashing, step, total)
    }
}
'''
    open(p, "w").write(s)
    print("appended hook to", p)

#!/usr/bin/env python3
"""append cfg-guarded hook exposing the configurable-chunk-size hashing implementation (C13's hook_needed)"""
p = "/repo/sdk/src/utils/hash_utils.rs"
s = open(p).read()
if "pub mod verif_hooks" not in s:
    if not s.endswith("\n"):
        s += "\n"
    s += '''
/// Verification hooks (compiled only with `--cfg contentauth_c2pa_rs_verif`): expose the
/// crate-private hashing implementation with a configurable read-chunk size.
#[cfg(contentauth_c2pa_rs_verif)]
#[doc(hidden)]
pub mod verif_hooks {
    use std::{
        io::{Read, Seek},
        num::NonZeroUsize,
    };

    use super::HashRange;

    pub fn hash_stream_with_max_buf<R: Read + Seek + ?Sized>(
        alg: &str,
        data: &mut R,
        hash_range: Option<Vec<HashRange>>,
        is_exclusion: bool,
        max_hash_buf: usize,
        progress: &mut dyn FnMut(u32, u32) -> crate::Result<()>,
    ) -> crate::Result<Vec<u8>> {
        let max_hash_buf = NonZeroUsize::new(max_hash_buf)
            .ok_or(crate::Error::BadParam("invalid max_hash_buf".to_string()))?;
        super::hash_stream_by_alg_with_progress_impl(
            alg,
            data,
            hash_range,
            is_exclusion,
            &mut |a, b| progress(a, b),
            max_hash_buf,
        )
    }
}
'''
    open(p, "w").write(s)
    print("appended hook to", p)
p = "/repo/sdk/src/lib.rs"
s = open(p).read()
if "pub mod hash_hooks" not in s:
    idx = s.rindex("}")
    s = s[:idx] + '''
    /// Re-export of the hashing hook (the `utils` module is crate-private).
    pub mod hash_hooks {
        pub use crate::utils::hash_utils::verif_hooks::hash_stream_with_max_buf;
    }
}
'''
    open(p, "w").write(s)
    print("extended lib.rs")

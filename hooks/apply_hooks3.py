#!/usr/bin/env python3
"""One-off helper used while building: appends cfg-guarded hook wrappers (add-only) for the
string kernels driven natively by /verif/smt/native (replay + differential validation)."""
def append(path, text, marker):
    s = open(path).read()
    if marker in s:
        print("already present in", path); return
    if not s.endswith("\n"): s += "\n"
    open(path, "w").write(s + text)
    print("appended to", path)

append("/repo/sdk/src/jumbf/labels.rs", '''
/// Verification hooks (compiled only with `--cfg contentauth_c2pa_rs_verif`): expose the
/// crate-private label/URI helpers to out-of-tree harnesses. Nothing here changes behaviour.
#[cfg(contentauth_c2pa_rs_verif)]
#[doc(hidden)]
pub mod verif_hooks {
    pub fn to_manifest_uri(m: &str) -> String {
        super::to_manifest_uri(m)
    }

    pub fn to_assertion_uri(m: &str, a: &str) -> String {
        super::to_assertion_uri(m, a)
    }

    pub fn to_signature_uri(m: &str) -> String {
        super::to_signature_uri(m)
    }

    pub fn to_verifiable_credential_uri(m: &str, id: &str) -> String {
        super::to_verifiable_credential_uri(m, id)
    }

    pub fn to_databox_uri(m: &str, id: &str) -> String {
        super::to_databox_uri(m, id)
    }

    pub fn to_normalized_uri(uri: &str) -> String {
        super::to_normalized_uri(uri)
    }

    pub fn to_absolute_uri(m: &str, uri: &str) -> String {
        super::to_absolute_uri(m, uri)
    }

    pub fn to_relative_uri(uri: &str) -> String {
        super::to_relative_uri(uri)
    }

    pub fn manifest_label_from_uri(uri: &str) -> Option<String> {
        super::manifest_label_from_uri(uri)
    }

    pub fn assertion_label_from_uri(uri: &str) -> Option<String> {
        super::assertion_label_from_uri(uri)
    }

    pub fn box_name_from_uri(uri: &str) -> Option<String> {
        super::box_name_from_uri(uri)
    }

    /// `manifest_label_to_parts` as a tuple (guid, is_v1, cgi, version, reason).
    #[allow(clippy::type_complexity)]
    pub fn manifest_label_to_parts(
        uri: &str,
    ) -> Option<(String, bool, Option<String>, Option<usize>, Option<usize>)> {
        super::manifest_label_to_parts(uri).map(|p| (p.guid, p.is_v1, p.cgi, p.version, p.reason))
    }

    /// `ManifestParts` `Display`.
    pub fn manifest_parts_to_string(
        guid: &str,
        is_v1: bool,
        cgi: Option<&str>,
        version: Option<usize>,
        reason: Option<usize>,
    ) -> String {
        super::ManifestParts {
            guid: guid.to_owned(),
            is_v1,
            cgi: cgi.map(|s| s.to_owned()),
            version,
            reason,
        }
        .to_string()
    }
}
''', "pub mod verif_hooks")

p = "/repo/sdk/src/http/restricted.rs"
s = open(p).read()
if "pub fn build_redirected_request" not in s:
    old = "    pub const MAX_REDIRECTS: usize = super::MAX_REDIRECTS;\n}\n"
    assert old in s
    s = s.replace(old, '''    pub const MAX_REDIRECTS: usize = super::MAX_REDIRECTS;

    pub fn is_uri_allowed(patterns: &[super::HostPattern], uri: &http::Uri) -> bool {
        super::is_uri_allowed(patterns, uri)
    }

    pub fn build_redirected_request(
        method: http::Method,
        headers: http::HeaderMap,
        body: Vec<u8>,
        target: http::Uri,
    ) -> Result<http::Request<Vec<u8>>, crate::http::HttpResolverError> {
        super::build_redirected_request(method, headers, body, target)
    }
}
''')
    open(p, "w").write(s)
    print("extended restricted.rs hooks")

p = "/repo/sdk/src/lib.rs"
s = open(p).read()
if "pub mod claim_labels" not in s:
    idx = s.rindex("}")
    s = s[:idx] + '''
    /// Wrappers for the assertion-label helpers of the crate-private `claim` / `assertion` modules.
    pub mod claim_labels {
        pub fn label_with_instance(label: &str, instance: usize) -> String {
            crate::claim::Claim::label_with_instance(label, instance)
        }

        pub fn assertion_label_from_link(link: &str) -> (String, usize) {
            crate::claim::Claim::assertion_label_from_link(link)
        }

        pub fn get_thumbnail_type(label: &str) -> String {
            crate::assertion::get_thumbnail_type(label)
        }

        pub fn get_thumbnail_image_type(label: &str) -> Option<String> {
            crate::assertion::get_thumbnail_image_type(label)
        }

        pub fn get_thumbnail_instance(label: &str) -> Option<usize> {
            crate::assertion::get_thumbnail_instance(label)
        }
    }
}
'''
    open(p, "w").write(s)
    print("extended lib.rs")

#!/usr/bin/env python3
"""One-off helper used while building: appends cfg-guarded hook modules to /repo (add-only)."""
import sys
def append(path, text, marker):
    s = open(path).read()
    if marker in s:
        print("already present in", path); return
    if not s.endswith("\n"): s += "\n"
    open(path, "w").write(s + text)
    print("appended to", path)

append("/repo/sdk/src/asset_handlers/bmff_io.rs", '''
/// Verification hooks (compiled only with `--cfg contentauth_c2pa_rs_verif`): expose the
/// crate-private BMFF header parsers to out-of-tree proof harnesses.
#[cfg(contentauth_c2pa_rs_verif)]
#[doc(hidden)]
pub mod verif_hooks {
    use std::io::{Read, Seek};

    /// `BoxHeaderLite::read` -> (declared size, large-size flag, box type as u32).
    pub fn box_header_lite_read<R: Read + Seek + ?Sized>(
        reader: &mut R,
    ) -> crate::Result<(u64, bool)> {
        super::BoxHeaderLite::read(reader).map(|h| (h.size, h.large_size))
    }

    /// `read_ftyp_box` -> (minor version, number of compatible brands).
    pub fn read_ftyp_box<R: Read + Seek + ?Sized>(reader: &mut R) -> crate::Result<(u32, usize)> {
        super::read_ftyp_box(reader).map(|f| (f.minor_version, f.compatible_brands.len()))
    }
}
''', "pub mod verif_hooks")

append("/repo/sdk/src/asset_handlers/png_io.rs", '''
/// Verification hooks (compiled only with `--cfg contentauth_c2pa_rs_verif`): expose the
/// crate-private PNG chunk scanner to out-of-tree proof harnesses.
#[cfg(contentauth_c2pa_rs_verif)]
#[doc(hidden)]
pub mod verif_hooks {
    use std::io::{Read, Seek};

    /// `get_png_chunk_positions` -> (start, declared data length, chunk name) per chunk.
    pub fn png_chunk_positions<R: Read + Seek + ?Sized>(
        f: &mut R,
    ) -> crate::Result<Vec<(u64, u32, [u8; 4])>> {
        super::get_png_chunk_positions(f)
            .map(|v| v.into_iter().map(|p| (p.start, p.length, p.name)).collect())
    }
}
''', "pub mod verif_hooks")

# lib.rs: extend the crate-root hook module
p = "/repo/sdk/src/lib.rs"
s = open(p).read()
if "pub mod path_utils" not in s:
    idx = s.rindex("}")
    s = s[:idx] + '''
    /// Wrappers for `pub(crate)` helpers of `utils::path_utils`.
    pub mod path_utils {
        pub fn sanitize_archive_path(path: &str) -> crate::Result<String> {
            crate::utils::path_utils::sanitize_archive_path(path)
        }
    }
}
'''
    open(p, "w").write(s)
    print("extended lib.rs")

// Appended to sdk/src/crypto/cose/sign.rs (before the fix: fails; after: passes).
#[cfg(test)]
mod c14_finding_demo {
    use coset::{CoseSign1Builder, HeaderBuilder};

    use super::*;

    fn unpadded() -> CoseSign1 {
        CoseSign1Builder::new()
            .protected(HeaderBuilder::new().build())
            .unprotected(HeaderBuilder::new().build())
            .signature(vec![1u8; 64])
            .build()
    }

    #[test]
    fn every_representable_reserve_is_padded_exactly() {
        let base = pad_cose_sig(&mut unpadded(), None).unwrap().len();
        // before the fix only base, and base+263 ..= base+65542 were accepted:
        // base+5 ..= base+262 and everything from base+65543 failed with BoxSizeTooSmall
        for extra in [0usize, 5, 6, 28, 29, 30, 216, 262, 263, 5000, 65542, 65543, 65544, 65545, 70000, 131067] {
            let out = pad_cose_sig(&mut unpadded(), Some(base + extra))
                .unwrap_or_else(|e| panic!("reserve base+{extra} refused: {e}"));
            assert_eq!(out.len(), base + extra);
        }
        // 1..=4 extra bytes cannot be represented (the smallest pad entry takes 5 bytes)
        for extra in 1..5usize {
            assert!(pad_cose_sig(&mut unpadded(), Some(base + extra)).is_err());
        }
    }
}

// Inserted into the `tests` module of sdk/src/builder.rs (before the fix: fails; after: passes).
    #[test]
    fn c15_finding_demo_grown_manifest_is_refused_not_returned_longer() -> Result<()> {
        let mut builder = Builder::default().with_definition(simple_manifest_json())?;
        let composed_placeholder = builder.placeholder("image/jpeg")?;
        // the manifest grows after the placeholder was handed out
        builder.add_assertion("org.contentauth.test", &serde_json::json!({"blob": "x".repeat(5000)}))?;
        let mut asset = Cursor::new(TEST_IMAGE_CLOUD);
        builder.set_data_hash_exclusions(vec![HashRange::new(2, composed_placeholder.len() as u64)])?;
        builder.update_hash_from_stream("image/jpeg", &mut asset)?;
        match builder.sign_embeddable("image/jpeg") {
            // before the fix: Ok with 11254 bytes for a 6208-byte placeholder (patching it in place overwrites media data)
            Ok(signed) => assert_eq!(signed.len(), composed_placeholder.len(), "signed manifest must have the placeholder's size"),
            Err(_) => {}
        }
        Ok(())
    }

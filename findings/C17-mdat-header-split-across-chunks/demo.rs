
// Demonstration for finding C17-mdat-header-split-across-chunks (append to the end of sdk/src/utils/merkle.rs):
// fails on the tree before the "fix:" commit, passes after it.
#[cfg(test)]
mod verif_c17_demo {
    #![allow(clippy::unwrap_used)]
    use super::*;

    fn leaves_for(chunks: &[&[u8]], fixed: usize) -> (Vec<(u64, Vec<u8>)>, Vec<u8>) {
        let mut acc = MerkleAccumulator::new("sha256").unwrap();
        acc.fixed_size = Some(fixed);
        for c in chunks {
            acc.add_merkle_leaf(0, false, c).unwrap();
        }
        (
            acc.merkle_leaves.get(&0).cloned().unwrap_or_default(),
            acc.fixed_size_remainder.get(&0).cloned().unwrap_or_default(),
        )
    }

    #[test]
    fn leaves_do_not_depend_on_where_the_first_chunk_ends() {
        // 8-byte mdat header followed by 6 payload bytes, fixed leaf size 3
        let mdat: Vec<u8> = vec![0, 0, 0, 14, b'm', b'd', b'a', b't', 1, 2, 3, 4, 5, 6];
        let whole = leaves_for(&[&mdat], 3);
        assert_eq!(whole.0.len(), 2);
        for cut in 1..mdat.len() {
            let split = leaves_for(&[&mdat[..cut], &mdat[cut..]], 3);
            assert_eq!(split, whole, "first chunk of {cut} bytes");
        }
    }
}


// Demonstration for finding C35-sniff-short-read (append to the end of sdk/src/jumbf_io.rs):
// fails on the tree before the "fix:" commit, passes after it.
#[cfg(test)]
mod verif_c35_demo {
    #![allow(clippy::unwrap_used, deprecated)]
    use std::io::{Cursor, Read, Seek, SeekFrom};

    use super::*;

    /// A reader that hands out one byte per `read` call (legal per the `Read` contract).
    struct OneByte<R>(R);

    impl<R: Read> Read for OneByte<R> {
        fn read(&mut self, buf: &mut [u8]) -> std::io::Result<usize> {
            if buf.is_empty() {
                return Ok(0);
            }
            self.0.read(&mut buf[..1])
        }
    }

    impl<R: Seek> Seek for OneByte<R> {
        fn seek(&mut self, p: SeekFrom) -> std::io::Result<u64> {
            self.0.seek(p)
        }
    }

    #[test]
    fn sniffing_is_independent_of_read_chunking() {
        let jpeg = include_bytes!("../tests/fixtures/CA.jpg");
        let mut full = Cursor::new(&jpeg[..]);
        assert_eq!(container_from_stream(&mut full), Some("jpg"));
        let mut slow = OneByte(Cursor::new(&jpeg[..]));
        assert_eq!(container_from_stream(&mut slow), Some("jpg"));
        assert_eq!(format_from_stream("image/png", &mut slow), "jpg");
    }

    #[test]
    fn reader_with_wrong_hint_is_independent_of_read_chunking() {
        let jpeg = include_bytes!("../tests/fixtures/CA.jpg");
        let full = crate::Reader::from_stream("image/png", Cursor::new(&jpeg[..]))
            .map(|r| r.active_label().map(|s| s.to_owned()));
        let slow = crate::Reader::from_stream("image/png", OneByte(Cursor::new(&jpeg[..])))
            .map(|r| r.active_label().map(|s| s.to_owned()));
        assert!(full.is_ok(), "full-read stream must be readable despite the wrong hint");
        assert_eq!(format!("{full:?}"), format!("{slow:?}"));
    }
}

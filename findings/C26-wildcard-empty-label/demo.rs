
// Demonstration for finding C26-wildcard-empty-label (append to the end of sdk/src/http/restricted.rs):
// fails on the tree before the "fix:" commit, passes after it.
#[cfg(test)]
mod verif_c26_demo {
    #![allow(clippy::unwrap_used)]
    use super::*;

    #[derive(Debug)]
    struct Recorder(std::sync::atomic::AtomicBool);

    impl SyncHttpResolver for Recorder {
        fn http_resolve(
            &self,
            _request: Request<Vec<u8>>,
        ) -> Result<Response<Box<dyn Read>>, HttpResolverError> {
            self.0.store(true, std::sync::atomic::Ordering::SeqCst);
            Ok(Response::new(Box::new(std::io::empty()) as Box<dyn Read>))
        }
    }

    #[test]
    fn wildcard_needs_a_non_empty_subdomain() {
        let pattern = HostPattern::new("*.example.com");
        // documented: the apex does not match ...
        assert!(!pattern.matches(&"https://example.com/".parse::<Uri>().unwrap()));
        // ... and neither does a host whose "sub-domain" is empty
        assert!(!pattern.matches(&"https://.example.com/".parse::<Uri>().unwrap()));
        assert!(pattern.matches(&"https://a.example.com/".parse::<Uri>().unwrap()));
    }

    #[test]
    fn empty_subdomain_never_reaches_the_transport() {
        let resolver = RestrictedResolver::with_allowed_hosts(
            Recorder(std::sync::atomic::AtomicBool::new(false)),
            vec![HostPattern::new("*.e-D.A-")],
        );
        let req = Request::get("http://.E-d.A-/x").body(Vec::new()).unwrap();
        let res = resolver.http_resolve(req);
        assert!(res.is_err());
        assert!(!resolver.inner.0.load(std::sync::atomic::Ordering::SeqCst));
    }
}

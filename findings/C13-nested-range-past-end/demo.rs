
// Demonstration for finding C13-nested-range-past-end (append to the end of sdk/src/utils/hash_utils.rs):
// fails on the tree before the "fix:" commit, passes after it.
#[cfg(test)]
mod verif_c13_demo {
    #![allow(clippy::unwrap_used)]
    use std::io::Cursor;

    use super::*;

    #[test]
    fn exclusion_reaching_past_the_end_is_rejected_even_when_not_last() {
        // a range that reaches far past the end of a 2-byte stream ...
        let huge = HashRange::new(0, (1u64 << 63) + 1);
        // ... is rejected when it is the only range ...
        assert!(hash_stream_by_alg("sha256", &mut Cursor::new(b"@@".to_vec()), Some(vec![huge.clone()]), true).is_err());
        // ... and must be rejected as well when another, in-bounds range sorts after it
        let ok = HashRange::new(0, 2);
        assert!(hash_stream_by_alg("sha256", &mut Cursor::new(b"@@".to_vec()), Some(vec![huge, ok]), true).is_err());
    }

    #[test]
    fn nested_exclusion_past_the_end_is_rejected() {
        let data = vec![0u8, b' ', 0, 0];
        let r = hash_stream_by_alg(
            "sha256",
            &mut Cursor::new(data),
            Some(vec![HashRange::new(2, 0), HashRange::new(0, 13817043652270059535)]),
            true,
        );
        assert!(r.is_err());
    }
}


// Demonstration for finding C34-vendor-named-urn (append to the end of sdk/src/jumbf/labels.rs):
// fails on the tree before the "fix:" commit, passes after it.
#[cfg(test)]
mod verif_c34_demo {
    #![allow(clippy::unwrap_used, clippy::expect_used)]
    use super::*;

    #[test]
    fn v1_label_with_vendor_named_urn_round_trips() {
        let mp = ManifestParts {
            guid: "9d8--e2-".to_owned(),
            is_v1: true,
            cgi: Some("urn".to_owned()),
            version: None,
            reason: None,
        };
        let label = mp.to_string();
        assert_eq!(label, "urn:urn:uuid:9d8--e2-");
        let parsed = manifest_label_to_parts(&label).expect("a label the SDK generated must parse");
        assert!(parsed.is_v1);
        assert_eq!(parsed.guid, "9d8--e2-");
        assert_eq!(parsed.cgi.as_deref(), Some("urn"));
    }

    #[test]
    fn claim_created_with_vendor_urn_reports_its_vendor() {
        let claim = crate::claim::Claim::new("generator", Some("URN"), 1);
        assert_eq!(claim.vendor().as_deref(), Some("urn"));
    }
}

"""Run one Kani harness of /verif/kani against /repo's current working tree and
parse CBMC's per-check output into a verdict.

Verdicts
  PASS          every property check SUCCESS, every cover SATISFIED, no unwinding failure
  FAIL          at least one non-unwinding, non-"unsupported" property check FAILED
  INCONCLUSIVE  anything else (time-out, OOM, compiler error, unwinding assertion failed,
                unsupported construct reachable, UNDETERMINED checks, a cover not satisfied)
"""
import fcntl
import os
import re
import resource
import signal
import subprocess
import time

VERIF = os.path.dirname(os.path.dirname(os.path.abspath(__file__)))
CRATE = os.path.join(VERIF, "kani")
TARGET = os.path.join(VERIF, ".target", "kani")
GUARD = "contentauth_c2pa_rs_verif"

CHECK_RE = re.compile(r"^Check (\d+): (.+?)\s*$")
STATUS_RE = re.compile(r"^\s+- Status: (\S+)")
DESC_RE = re.compile(r'^\s+- Description: "(.*)"\s*$')
LOC_RE = re.compile(r"^\s+- Location: (.*)$")


def base_env():
    env = dict(os.environ)
    flags = env.get("RUSTFLAGS", "")
    if GUARD not in flags:
        flags = (flags + " --cfg " + GUARD).strip()
    env["RUSTFLAGS"] = flags
    env["CARGO_NET_OFFLINE"] = "true"
    env.pop("RUSTUP_TOOLCHAIN", None)
    return env


def kani_cmd(h, extra=None):
    """h: harness spec dict (see harnesses.py)."""
    cmd = ["cargo", "kani", "--target-dir", TARGET, "--harness", h["name"], "--exact"]
    z = []
    if h.get("stubbing"):
        z += ["-Z", "stubbing"]
    if h.get("z"):
        for f in h["z"]:
            z += ["-Z", f]
    cbmc_args = []
    if h.get("unwind") is not None:
        cbmc_args += ["--unwind", str(h["unwind"])]
    if h.get("unwindset"):
        cbmc_args += ["--unwindset", ",".join(h["unwindset"])]
    if h.get("solver"):
        cmd += ["--solver", h["solver"]]
    if extra:
        cmd += extra
    if cbmc_args:
        z += ["-Z", "unstable-options"]
        cmd += z + ["--cbmc-args"] + cbmc_args
    else:
        cmd += z
    return cmd


def _limit(mem_gb):
    def f():
        os.setsid()
        b = int(mem_gb * (1 << 30))
        resource.setrlimit(resource.RLIMIT_AS, (b, b))
    return f


def parse_output(text):
    checks = []
    cur = None
    for line in text.splitlines():
        m = CHECK_RE.match(line)
        if m:
            cur = {"n": int(m.group(1)), "name": m.group(2), "status": None, "desc": "", "loc": ""}
            checks.append(cur)
            continue
        if cur is None:
            continue
        m = STATUS_RE.match(line)
        if m:
            cur["status"] = m.group(1)
            continue
        m = DESC_RE.match(line)
        if m:
            cur["desc"] = m.group(1)
            continue
        m = LOC_RE.match(line)
        if m:
            cur["loc"] = m.group(1)
            continue
        if line.startswith("SUMMARY:"):
            cur = None
    info = {}
    m = re.search(r"\*\* (\d+) of (\d+) failed", text)
    if m:
        info["failed"], info["total"] = int(m.group(1)), int(m.group(2))
    m = re.search(r"\*\* (\d+) of (\d+) cover properties satisfied", text)
    if m:
        info["covers_sat"], info["covers_total"] = int(m.group(1)), int(m.group(2))
    m = re.search(r"VERIFICATION:- (\w+)", text)
    info["verification"] = m.group(1) if m else None
    m = re.search(r"Verification Time: ([0-9.]+)s", text)
    if m:
        info["verification_time_s"] = float(m.group(1))
    vs = re.findall(r"(\d+) variables, (\d+) clauses", text)
    if vs:
        info["sat_variables"] = max(int(a) for a, _ in vs)
        info["sat_clauses"] = max(int(b) for _, b in vs)
        info["solver_calls"] = len(vs)
    ts = re.findall(r"Runtime Solver: ([0-9.e+-]+)s", text)
    if ts:
        info["solver_time_s"] = round(sum(float(t) for t in ts), 4)
    m = re.search(r"Runtime Symex: ([0-9.e+-]+)s", text)
    if m:
        info["symex_time_s"] = float(m.group(1))
    m = re.search(r"Generated (\d+) VCC\(s\), (\d+) remaining", text)
    if m:
        info["vccs"], info["vccs_after_simplification"] = int(m.group(1)), int(m.group(2))
    info["stubs"] = re.findall(r"- Stub: (.*)", text)
    return checks, info


def classify(checks, info, rc, timed_out, text):
    """Return (verdict, reason, failing_checks)."""
    if timed_out:
        return "INCONCLUSIVE", "time-out", []
    if "error: could not compile" in text or "Failed to execute cargo" in text or "error[E" in text:
        return "INCONCLUSIVE", "compile error (harness or hook no longer matches /repo)", []
    if "Kani unexpectedly panicked" in text or "internal compiler error" in text:
        return "INCONCLUSIVE", "Kani compiler crash", []
    if "Solver ran out of memory" in text or "std::bad_alloc" in text:
        return "INCONCLUSIVE", "CBMC/SAT solver ran out of memory (limit exceeded)", []
    if info.get("verification") is None:
        if "std::bad_alloc" in text or "Out of memory" in text or rc in (-9, 137, -6, 134):
            return "INCONCLUSIVE", "CBMC out of memory / killed (rc=%s)" % rc, []
        return "INCONCLUSIVE", "no verdict from CBMC (rc=%s)" % rc, []
    props = [c for c in checks if c["status"] not in ("SATISFIED", "UNSATISFIABLE", "UNSATISFIED")
             and ".cover." not in c["name"]]
    covers = [c for c in checks if ".cover." in c["name"] or c["status"] in ("SATISFIED", "UNSATISFIABLE", "UNSATISFIED")]
    unwind_fail = [c for c in props if c["status"] == "FAILURE" and (".unwind." in c["name"] or "unwinding assertion" in c["desc"])]
    unsupported = [c for c in props if c["status"] == "FAILURE" and ("unsupported" in c["name"] or "is not currently supported" in c["desc"] or "not supported by Kani" in c["desc"])]
    real_fail = [c for c in props if c["status"] == "FAILURE" and c not in unwind_fail and c not in unsupported]
    if real_fail and not unwind_fail:
        return "FAIL", "property check failed", real_fail
    if real_fail and unwind_fail:
        # a failure found on a path that is within the bound is still a real failure
        return "FAIL", "property check failed (an unwinding assertion failed as well)", real_fail
    if unwind_fail:
        return "INCONCLUSIVE", "unwinding assertion failed: bound too small for " + unwind_fail[0]["name"], []
    if unsupported:
        return "INCONCLUSIVE", "unsupported construct reachable: " + unsupported[0]["desc"][:120], []
    bad = [c for c in props if c["status"] not in ("SUCCESS", "UNREACHABLE")]
    if bad:
        return "INCONCLUSIVE", "check %s has status %s" % (bad[0]["name"], bad[0]["status"]), []
    unsat = [c for c in covers if c["status"] != "SATISFIED"]
    if unsat:
        return "INCONCLUSIVE", "vacuity guard: cover not satisfied: " + unsat[0]["desc"], []
    if info.get("verification") != "SUCCESSFUL":
        return "INCONCLUSIVE", "VERIFICATION:- %s without a failing check" % info.get("verification"), []
    if not props:
        return "INCONCLUSIVE", "no property checks were generated", []
    return "PASS", "", []


def run_harness(h, log_path, extra=None, mem_gb=None, timeout=None):
    cmd = kani_cmd(h, extra)
    timed_out = False
    mem_gb = mem_gb or h.get("mem_gb", 14)
    timeout = timeout or h.get("timeout", 600)
    os.makedirs(TARGET, exist_ok=True)
    with open(log_path, "w") as lf:
        lf.write("$ " + " ".join(cmd) + "\n")
        lf.flush()
        # Builds are serialized (one kani-compiler run of the harness crate at a time, across
        # threads and processes); the lock is released as soon as CBMC starts on the harness.
        lock = open(os.path.join(TARGET, ".build.lock"), "w")
        fcntl.flock(lock, fcntl.LOCK_EX)
        locked = True
        t0 = time.time()
        p = subprocess.Popen(cmd, cwd=CRATE, env=base_env(), stdout=lf, stderr=subprocess.STDOUT,
                             preexec_fn=_limit(mem_gb))
        rc = None
        build_s = None
        while True:
            try:
                rc = p.wait(timeout=0.5)
                break
            except subprocess.TimeoutExpired:
                pass
            if locked:
                try:
                    with open(log_path, errors="replace") as rf:
                        started = "Checking harness" in rf.read()
                except OSError:
                    started = False
                if started:
                    build_s = time.time() - t0
                    fcntl.flock(lock, fcntl.LOCK_UN)
                    locked = False
                    t_ver = time.time()
            # the time budget applies to verification, not to waiting for / doing the build
            if not locked and time.time() - t_ver > timeout:
                timed_out = True
                try:
                    os.killpg(p.pid, signal.SIGKILL)
                except ProcessLookupError:
                    pass
                rc = p.wait()
                break
            if locked and time.time() - t0 > 3600:
                timed_out = True
                try:
                    os.killpg(p.pid, signal.SIGKILL)
                except ProcessLookupError:
                    pass
                rc = p.wait()
                break
        if locked:
            fcntl.flock(lock, fcntl.LOCK_UN)
        lock.close()
    wall = time.time() - t0
    text = open(log_path, errors="replace").read()
    checks, info = parse_output(text)
    verdict, reason, failing = classify(checks, info, rc, timed_out, text)
    props = [c for c in checks if ".cover." not in c["name"]]
    covers = [c for c in checks if ".cover." in c["name"]]
    return {
        "harness": h["name"],
        "verdict": verdict,
        "reason": reason,
        "failing": failing,
        "wall_s": round(wall, 2),
        "build_s": round(build_s, 2) if build_s else None,
        "rc": rc,
        "cmd": " ".join(cmd),
        "n_checks": len(props),
        "n_success": sum(1 for c in props if c["status"] == "SUCCESS"),
        "n_unreachable": sum(1 for c in props if c["status"] == "UNREACHABLE"),
        "covers": [{"desc": c["desc"], "status": c["status"], "loc": c["loc"]} for c in covers],
        "functions": sorted({c["loc"].rsplit(" in function ", 1)[1] for c in props if " in function " in c["loc"]}),
        "info": info,
        "log": log_path,
    }

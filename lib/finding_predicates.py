"""Helper predicates usable inside known_findings.json `input_predicate` expressions: they decide, on the
concrete inputs of a replayed counterexample, whether it lies in the region of a recorded finding."""


def png_has_trailing_data(rest):
    """rest = the bytes after the 8-byte PNG signature (latin-1 text): True iff bytes follow the first IEND chunk"""
    b = rest.encode("latin-1") if isinstance(rest, str) else bytes(rest)
    pos = 0
    while pos + 12 <= len(b):
        ln = int.from_bytes(b[pos:pos + 4], "big")
        name = b[pos + 4:pos + 8]
        end = pos + 12 + ln
        if end > len(b):
            return False
        if name == b"IEND":
            return end < len(b)
        pos = end
    return False


HELPERS = {"png_has_trailing_data": png_has_trailing_data}

#!/usr/bin/env python3
"""Regenerate /verif/MANIFEST.json from lib/harnesses.py (claimed properties) and
lib/not_applicable.py (everything else).  Run after editing either table."""
import json
import os
import subprocess
import sys

VERIF = os.path.dirname(os.path.dirname(os.path.abspath(__file__)))
sys.path.insert(0, os.path.join(VERIF, "lib"))
import harnesses  # noqa: E402
import not_applicable  # noqa: E402


def main():
    ids = [json.loads(l)["id"] for l in open(os.path.join(VERIF, "properties.jsonl")) if l.strip()]
    checks = []
    for pid in ids:
        P = harnesses.PROPERTIES.get(pid)
        if not P:
            continue
        checks.append({
            "property_id": pid,
            "quick_cmd": "./check %s --tier quick" % pid,
            "thorough_cmd": "./check %s --tier thorough" % pid,
            "evidence_file": "/verif/evidence/%s.json" % pid,
            "replay_cmd_template": "./check %s --replay {path}" % pid,
            "engine": P.get("engine", "kani"),
            "level_claimed": {
                "category": P["level"],
                "text": P["level_text"],
                "design_ref": P.get("design_ref", "DESIGN.md section 3, " + pid),
            },
            "level_note": P["level_note"],
            "technique": P.get("technique", "bounded model checking of the compiled Rust code (Kani 0.68 -> CBMC 6.11 -> CaDiCaL SAT) over kani::any() inputs"),
        })
    na = []
    for pid in ids:
        if pid in harnesses.PROPERTIES:
            continue
        if pid not in not_applicable.REASONS:
            raise SystemExit("property %s is neither claimed nor in not_applicable" % pid)
        na.append({"property_id": pid, "reason": not_applicable.REASONS[pid]})
    try:
        commits = subprocess.check_output(
            ["git", "-C", "/repo", "log", "--format=%H %s", "761445917..HEAD"], text=True).strip().splitlines()
    except Exception:
        commits = []
    hook_commits = [c.split()[0] for c in commits if not c.split(" ", 1)[1].startswith("fix:")]
    m = {
        "version": 1,
        "setup_cmd": "./check --setup",
        "hooks": {
            "guard": "contentauth_c2pa_rs_verif",
            "enable": "RUSTFLAGS=\"--cfg contentauth_c2pa_rs_verif\" (set by /verif/lib/kani_run.py for every cargo kani invocation; "
                      "the hooks are `#[cfg(contentauth_c2pa_rs_verif)] pub mod verif_hooks` re-exports/wrappers only)",
            "baseline_off_cmd": "cd /repo/$(cat /w/out/cargo_root.txt) && cargo nextest run --workspace --no-fail-fast "
                                "--tool-config-file pb:/w/lib/nextest.toml --profile pb --test-threads 8 --offline",
            "source_commits": hook_commits,
            "add_only": True,
        },
        "engines": [
            {"name": "kani", "path": "/verif/kani",
             "serves_properties": [c["property_id"] for c in checks if c["engine"] == "kani"],
             "kind_free_text": "Kani 0.68.0 proof harnesses (crate c2pa-verif-kani, path dependency on /repo/sdk, rebuilt from the "
                               "working tree on every run) decided by CBMC 6.11.0 + CaDiCaL; counterexamples are replayed natively "
                               "through Kani concrete playback before being reported"},
        ] + ([{"name": "smt", "path": "/verif/smt",
               "serves_properties": [c["property_id"] for c in checks if c["engine"] == "smt"],
               "kind_free_text": harnesses.SMT_ENGINE_TEXT}] if any(c["engine"] == "smt" for c in checks) else []),
        "checks": checks,
        "not_applicable": na,
        "notes": "All claims are bounded: a pass means the assertions hold for every input within the bounds recorded in the "
                 "evidence file, with all unwinding assertions discharged and all reachability witnesses satisfied. Exit 2 = "
                 "inconclusive (time-out, OOM, compile error, vacuity guard) and is never a pass. See DESIGN.md.",
    }
    with open(os.path.join(VERIF, "MANIFEST.json"), "w") as f:
        json.dump(m, f, indent=1)
        f.write("\n")
    try:
        import jsonschema
        jsonschema.validate(m, json.load(open("/root/.vp/MANIFEST.schema.json")))
        print("MANIFEST.json valid: %d checks, %d not_applicable" % (len(checks), len(na)))
    except ImportError:
        print("MANIFEST.json written (jsonschema not available to validate)")


if __name__ == "__main__":
    main()

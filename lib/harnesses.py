"""Table of Kani harnesses per property: name (fully qualified inside the crate
c2pa-verif-kani), tiers, CBMC bounds, budget, and the human-readable statement of
what is encoded (echoed into evidence).  Nothing here is measured; all counts in
evidence come from parsing the solver's output."""

Q = ("quick", "thorough")
T = ("thorough",)


def H(name, tiers=Q, unwind=None, unwindset=None, timeout=600, mem_gb=14, stubbing=False,
      what="", bounds="", kernel=(), assumes=(), finding=None, solver=None):
    return dict(name=name, tiers=tiers, unwind=unwind, unwindset=unwindset or [], timeout=timeout,
                mem_gb=mem_gb, stubbing=stubbing, what=what, bounds=bounds, kernel=list(kernel),
                assumes=list(assumes), finding=finding, solver=solver)


PROPERTIES = {}

# --------------------------------------------------------------------------- C27
PROPERTIES["C27"] = dict(
    title="Redirects never reach internal addresses or leak credentials",
    level="model_checking",
    level_text=("Bounded model checking of the compiled classifier: CBMC decides the equality 'implementation == prefix table "
                "of the property' for ALL 2^32 IPv4 and ALL 2^128 IPv6 addresses (complete, loop-free), and the host-string "
                "helpers for every ASCII host up to the stated length. This is the right level because the risky inputs are "
                "single prefixes/masks (one /10, one mapped form) that sampling does not hit."),
    level_note=("Kernel-level claim: covers the address/host classification every redirect target passes through, not the "
                "Location-header URL parsing, the hop loop or header stripping (http/url crates: heap-heavy, did not scale). "
                "Trusted: Kani MIR->goto translation, CBMC, CaDiCaL; oracle table transcribed from the property text."),
    scope=("Kernel-level: the address classifier that every redirect target passes through "
           "(ipv4_is_non_global / ipv6_is_non_global / ip_is_non_global, with the std::net predicates "
           "as compiled) and the host-string helpers (normalize_host, looks_like_obfuscated_ip)."),
    outside=["URL parsing of the Location header (url::Url::join, http::Uri parsing)",
             "the redirect loop / 10-hop limit and header stripping over http::HeaderMap",
             "IPv4-compatible and NAT64 IPv6 forms (not required by the property text)"],
    assumptions=["Kani's MIR->goto translation, CBMC 6.11 and CaDiCaL are sound",
                 "c2pa built with default-features=false, features=[rust_native_crypto] (kernels are crypto-independent)",
                 "oracle = prefix table transcribed from the property statement"],
    harnesses=[
        H("c27::c27_ipv4_all_addresses", what="all 2^32 IPv4 addresses vs. the prefix table of the property",
          bounds="complete: 4 symbolic octets, loop-free", kernel=["ipv4_is_non_global"]),
        H("c27::c27_ipv6_all_addresses", what="all 2^128 IPv6 addresses incl. ::ffff:a.b.c.d mapped forms",
          bounds="complete: 8 symbolic segments; any::<[u16;8]> loop unwound", kernel=["ipv6_is_non_global", "ipv4_is_non_global"]),
        H("c27::c27_ip_dispatch", what="IpAddr dispatch sends each family to its classifier",
          bounds="complete", kernel=["ip_is_non_global"]),
    ],
)

"""Table of Kani harnesses per property: name (fully qualified inside the crate
c2pa-verif-kani), tiers, CBMC bounds, budget, and the human-readable statement of
what is encoded (echoed into evidence).  Nothing here is measured; all counts in
evidence come from parsing the solver's output."""

Q = ("quick", "thorough")
T = ("thorough",)


def H(name, tiers=Q, unwind=None, unwindset=None, timeout=600, mem_gb=14, stubbing=False,
      what="", bounds="", kernel=(), assumes=(), finding=None, solver=None):
    return dict(name=name, tiers=tiers, unwind=unwind, unwindset=unwindset or [], timeout=timeout,
                mem_gb=mem_gb, stubbing=stubbing, what=what, bounds=bounds, kernel=list(kernel),
                assumes=list(assumes), finding=finding, solver=solver)


PROPERTIES = {}

# --------------------------------------------------------------------------- C27
PROPERTIES["C27"] = dict(
    title="Redirects never reach internal addresses or leak credentials",
    level="model_checking",
    engine="kani",
    technique="bounded model checking of the compiled classifier (Kani/CBMC/CaDiCaL, complete over all addresses) + symbolic execution of the "
              "host-string and header-stripping SOURCE (syn AST -> bit-vector SMT, z3), native replay",
    smt=dict(module="props_c27", K=6, N=24, timeout_ms=600000),
    level_text=("Bounded model checking of the compiled classifier: CBMC decides the equality 'implementation == prefix table "
                "of the property' for ALL 2^32 IPv4 and ALL 2^128 IPv6 addresses (complete, loop-free), and the host-string "
                "helpers for every ASCII host up to the stated length. This is the right level because the risky inputs are "
                "single prefixes/masks (one /10, one mapped form) that sampling does not hit."),
    level_note=("Kernel-level claim: covers the address/host classification every redirect target passes through, not the "
                "Location-header URL parsing, the hop loop or header stripping (http/url crates: heap-heavy, did not scale). "
                "Trusted: Kani MIR->goto translation, CBMC, CaDiCaL; oracle table transcribed from the property text."),
    scope=("Kernel-level, two composed layers: (Kani) the numeric classifier every redirect target passes through "
           "(ipv4_is_non_global / ipv6_is_non_global / ip_is_non_global with the std::net predicates as compiled), complete over all "
           "addresses; (Engine Z) the host-text layer host_is_non_global / normalize_host / looks_like_obfuscated_ip -- localhost names, "
           "IPv4 literals, obfuscated numeric and hex forms --, build_redirected_request's header stripping, and the hop loop of "
           "RedirectResolver::http_resolve/redirect_target (at most ten redirects, none when disabled, re-issue only to checked targets) "
           "over a scripted symbolic transport."),
    outside=["URL parsing of the Location header (url::Url::join, http::Uri parsing)",
             "redirect_location / resolve_redirect_target (Location header extraction and url::Url::join are stubs in the hop-loop query)",
             "textual IPv6 literals (std's parser is modelled only as 'may parse'); IPv4-compatible and NAT64 IPv6 forms",
             "DNS names that resolve to internal addresses (tracked upstream, not in the property)"],
    assumptions=["Kani's MIR->goto translation, CBMC 6.11 and CaDiCaL are sound",
                 "c2pa built with default-features=false, features=[rust_native_crypto] (kernels are crypto-independent)",
                 "oracle = prefix table transcribed from the property statement"],
    harnesses=[
        H("c27::c27_ipv4_all_addresses", what="all 2^32 IPv4 addresses vs. the prefix table of the property",
          bounds="complete: 4 symbolic octets, loop-free", kernel=["ipv4_is_non_global"]),
        H("c27::c27_ipv6_all_addresses", what="all 2^128 IPv6 addresses incl. ::ffff:a.b.c.d mapped forms",
          bounds="complete: 8 symbolic segments; any::<[u16;8]> loop unwound", kernel=["ipv6_is_non_global", "ipv4_is_non_global"]),
        H("c27::c27_ip_dispatch", what="IpAddr dispatch sends each family to its classifier",
          bounds="complete", kernel=["ip_is_non_global"]),
    ],
)

# --------------------------------------------------------------------------- C04
_C04_UNW = dict(unwind=4, unwindset=["memcmp.0:31"])
_C04_ASSUME = ["every status code is an ASCII string of length 0..=29 (29 = longest code the decision compares against)",
               "oracle is one-directional (Valid/Trusted only if ...): a stricter implementation is not reported"]


def _c04(name, tiers, shape, timeout=1500, mem_gb=16):
    return H("c04::" + name, tiers=tiers, timeout=timeout, mem_gb=mem_gb,
             what="all assignments of arbitrary ASCII strings (len 0..=29) to the status-code slots of shape " + shape,
             bounds="shape %s (success, informational, failure | per-delta success, failure); code length <= 29; --unwind 4, memcmp 31" % shape,
             kernel=["ValidationResults::validation_state", "is_tolerated_manifest_failure_code", "StatusCodes::add_*_val",
                     "ValidationResults::add_active_manifest/add_ingredient_delta"],
             assumes=_C04_ASSUME, **_C04_UNW)


PROPERTIES["C04"] = dict(
    title="Validation state is derived soundly from validation codes",
    level="model_checking",
    level_text=("Bounded model checking of the compiled decision function: for each fixed shape of status lists, CBMC decides for "
                "ALL assignments of arbitrary ASCII strings (length 0..=29) to every status-code slot, and all presence flags, that "
                "Valid/Trusted are returned only when the property's conditions hold on the raw bytes. The decision is a function "
                "over a combinatorial domain where one particular code in one particular list matters; the solver covers them all."),
    level_note=("Kernel-level: ValidationResults::validation_state + builders + add_status routing. Not covered: from_store "
                "filtering, Reader::validation_state legacy fallback (needs a Reader), failure-summary formatting. Shapes are "
                "bounded (<=3 success, <=1 informational, <=2 failures per list, <=2 deltas). Trusted: Kani, CBMC, CaDiCaL; oracle "
                "transcribed from the property text, one-directional."),
    scope="ValidationResults::validation_state over status lists built with the public builders and with add_status",
    outside=["ValidationResults::from_store", "Reader::validation_state legacy status-list fallback", "ValidationFailureSummary formatting",
             "lists longer than the shapes enumerated", "codes longer than 29 bytes / non-ASCII codes"],
    assumptions=["Kani's MIR->goto translation, CBMC 6.11 and CaDiCaL are sound",
                 "c2pa built with default-features=false, features=[rust_native_crypto] (kernel is crypto-independent)"],
    harnesses=[
        _c04("c04_s0_i0_f0", Q, "(0,0,0|-)", timeout=300),
        _c04("c04_s2_i0_f0", T, "(2,0,0|-)"),
        _c04("c04_s2_i0_f1", Q, "(2,0,1|-)"),
        _c04("c04_s2_i0_f2", Q, "(2,0,2|-)"),
        _c04("c04_s3_i0_f0", Q, "(3,0,0|-)"),
        _c04("c04_s3_i1_f0", T, "(3,1,0|-)"),
        _c04("c04_s3_i0_f1", T, "(3,0,1|-)"),
        _c04("c04_s3_i0_f2", T, "(3,0,2|-)"),
        _c04("c04_s3_i1_f2", T, "(3,1,2|-)"),
        _c04("c04_s2_i0_f0_d01", Q, "(2,0,0|0,1)"),
        _c04("c04_s3_i0_f0_d01", T, "(3,0,0|0,1)"),
        _c04("c04_s3_i1_f1_d11", T, "(3,1,1|1,1)"),
        _c04("c04_s3_i0_f0_d02", T, "(3,0,0|0,2)"),
        _c04("c04_s3_i1_f2_d12", T, "(3,1,2|1,2)", timeout=3000),
        _c04("c04_s2_i0_f0_dd11", Q, "(2,0,0|0,1|0,1)"),
        _c04("c04_s3_i0_f1_dd01", T, "(3,0,1|0,0|0,1)"),
        _c04("c04_s3_i0_f0_dd12", T, "(3,0,0|0,1|0,2)", timeout=3000),
        _c04("c04_s3_i0_f0_d10", Q, "(3,0,0|1,0)"),
        H("c04::c04_add_status_active", tiers=Q, timeout=1500, mem_gb=20,
          what="two required success codes + 1 status with symbolic code (ASCII, len<=29) and symbolic kind, all routed by "
               "ValidationResults::add_status to the active manifest",
          bounds="1 symbolic status; --unwind 5, memcmp 31",
          kernel=["ValidationResults::add_status", "StatusCodes::add_status", "ValidationResults::validation_state"],
          assumes=_C04_ASSUME, unwind=5, unwindset=["memcmp.0:31"]),
        H("c04::c04_add_status_ingredient", tiers=T, timeout=1500, mem_gb=20,
          what="Trusted-worthy active manifest + 1 status with symbolic code and kind routed by add_status to an ingredient delta",
          bounds="1 symbolic status, 1 ingredient URI; --unwind 5, memcmp 31",
          kernel=["ValidationResults::add_status", "StatusCodes::add_status", "ValidationResults::validation_state"],
          assumes=_C04_ASSUME, unwind=5, unwindset=["memcmp.0:31"]),
        H("c04::c04_success_codes_on_delta_do_not_count", tiers=T, timeout=900, mem_gb=16,
          what="required success codes placed on an ingredient delta, one symbolic success code on the active manifest",
          bounds="1 symbolic status; --unwind 5, memcmp 31",
          kernel=["ValidationResults::validation_state"], assumes=_C04_ASSUME,
          unwind=5, unwindset=["memcmp.0:31"]),
    ],
)

# --------------------------------------------------------------------------- C11
_TRUST = ["Kani's MIR->goto translation, CBMC 6.11 and CaDiCaL are sound",
          "c2pa built with default-features=false, features=[rust_native_crypto] (kernels are crypto-independent; pdf feature off)"]

PROPERTIES["C11"] = dict(
    title="The reader's verdict does not depend on a wrong format hint",
    level="model_checking",
    level_text=("Bounded model checking of the two functions through which Reader::with_stream chooses the handler family: for ALL "
                "streams of 0..=24 arbitrary bytes (covers the 16-byte sniff window and the ID3->fLaC peek) and every hint family, "
                "CBMC decides that detection is total, rewinds the stream, recognises every documented magic number, and that the "
                "format handed to the handler lookup is of the detected family whatever the hint says."),
    level_note=("Kernel-level: container_from_stream + format_from_stream. What the chosen handler and the Store then do with the "
                "stream is outside (heap-heavy, not executable symbolically). container_from_format (lazy_static HashMap) is stubbed "
                "by the family the harness chose for the hint; in native playback the real registry is used."),
    scope="jumbf_io::container_from_stream and jumbf_io::format_from_stream over Cursor<&[u8]>",
    outside=["everything Reader::with_stream does after choosing the handler", "streams whose identifying bytes lie beyond offset 24 (ID3 tags longer than 10 bytes)",
             "the registry contents (container_from_format) itself"],
    assumptions=_TRUST + ["oracle magic-number table transcribed from the property text; inputs matching two signatures at once are left unspecified"],
    harnesses=[
        H("c11::c11_detection_total_and_rewinds_16", unwind=20, timeout=1200, mem_gb=20,
          what="all byte strings of length 0..=16 as stream content", bounds="16 bytes; --unwind 20",
          kernel=["jumbf_io::container_from_stream"]),
        H("c11::c11_hint_never_overrides_detection_16", unwind=20, timeout=1500, mem_gb=24, stubbing=True,
          what="all byte strings of length 0..=16 x 13 hints (11 container ids, one MIME type, one unknown)",
          bounds="16 bytes; 13 hints; --unwind 20", kernel=["jumbf_io::format_from_stream", "jumbf_io::container_from_stream"],
          assumes=["stub: container_from_format(hint) returns the family the harness chose for that hint"]),
        H("c11::c11_detection_total_and_rewinds", unwind=26, timeout=1800, mem_gb=24, tiers=T,
          what="all byte strings of length 0..=24 as stream content", bounds="24 bytes; --unwind 26",
          kernel=["jumbf_io::container_from_stream"]),
        H("c11::c11_hint_never_overrides_detection", unwind=26, timeout=2400, mem_gb=28, stubbing=True, tiers=T,
          what="all byte strings of length 0..=24 x 13 hints (11 container ids, one MIME type, one unknown)",
          bounds="24 bytes; 13 hints; --unwind 26", kernel=["jumbf_io::format_from_stream", "jumbf_io::container_from_stream"],
          assumes=["stub: container_from_format(hint) returns the family the harness chose for that hint"]),
    ],
)

# --------------------------------------------------------------------------- C35
PROPERTIES["C35"] = dict(
    title="Results do not depend on stream chunking, and I/O errors are never hidden",
    level="model_checking",
    engine="kani",
    technique="bounded model checking of the compiled sniffer/stream_len (Kani/CBMC/CaDiCaL) under a symbolic I/O schedule + symbolic execution of "
              "ReaderUtils::read_to_vec's SOURCE (syn AST -> bit-vector SMT, z3) over a faulty in-memory stream model (symbolic short reads and read failures)",
    smt=dict(module="props_c35", K=6, N=24, timeout_ms=600000),
    level_text=("Bounded model checking of the shared stream kernels under a symbolic I/O schedule: the harness stream returns a "
                "solver-chosen number of bytes (>=1) on every read and can fail at a solver-chosen call index; CBMC decides for ALL "
                "schedules, ALL contents up to 24 bytes and ALL positions that the result equals the full-read result and that an "
                "injected error is never turned into Ok."),
    level_note=("Kernel-level: format sniffing (container_from_stream) and io_utils::stream_len under Kani; ReaderUtils::read_to_vec under Engine Z "
                "(data up to 4/6 bytes, every position and length, up to 5/7 scheduled reads each short (>=1 byte) or failing; std's read_to_end through "
                "Take is modelled as a loop of such reads and validated against the real std on concrete schedules every run). The "
                "per-format handlers, Store and signing are outside (not executable symbolically). Trusted: Kani, CBMC, CaDiCaL; "
                "the SymStream model of Read+Seek (short reads >= 1 byte, ErrorKind::Other failures)."),
    scope="jumbf_io::container_from_stream and io_utils::stream_len driven by a symbolic-schedule stream (Kani); <R as ReaderUtils>::read_to_vec from source over the faulty stream model (Engine Z)",
    outside=["asset handler read loops, BoxReader, Store, Builder::sign", "write-side short writes", "streams longer than 24 bytes",
             "ReaderUtils::read_to_vec under Kani (std's read_to_end did not terminate under CBMC within 40 min for 4-byte streams; it is covered from source by Engine Z instead)",
             "fault injection into the sniffer (harness ran out of memory after the sniffing loop was introduced by the fix)"],
    assumptions=_TRUST + ["a read never returns 0 bytes while data remains (Read contract)", "failures are io::ErrorKind::Other"],
    harnesses=[
        H("c35::c35_sniff_chunking_independent_8", unwind=18, timeout=1200, mem_gb=20,
          what="all non-ID3 streams of 0..=8 bytes x schedules with up to 2 short reads of symbolic size", bounds="8 bytes, <=2 short reads (symbolic k in 1..=requested), then full reads; --unwind 18",
          kernel=["jumbf_io::container_from_stream"]),
        H("c35::c35_sniff_chunking_independent", unwind=18, timeout=1800, mem_gb=24, tiers=T,
          what="all non-ID3 streams of 0..=12 bytes x schedules with up to 3 short reads of symbolic size", bounds="12 bytes, <=3 short reads; --unwind 18",
          kernel=["jumbf_io::container_from_stream"]),
        H("c35::c35_sniff_id3_peek_chunking_independent", unwind=26, timeout=2400, mem_gb=24, tiers=T,
          what="ID3-tagged streams of 10..=24 bytes, first read full, later reads short", bounds="24 bytes; --unwind 26",
          kernel=["jumbf_io::container_from_stream"]),
        H("c35::c35_stream_len_preserves_position_and_propagates_errors", unwind=26, timeout=600,
          what="all lengths 0..=24 x all u64 positions x failure at seek index 0..2", bounds="complete for the seek logic; --unwind 26",
          kernel=["io_utils::stream_len"]),
    ],
)

SMT_ENGINE_TEXT = ("Engine Z: /verif/smt/astdump (syn) dumps the AST of the functions from /repo's current source; /verif/smt/symex.py executes it "
                   "symbolically (guarded merging, panics and bounds as obligations) into bit-vector terms over bounded byte strings (bstr.py); "
                   "z3 (QF_BV) decides every obligation; satisfying assignments are replayed against the real functions through the "
                   "cfg-guarded hooks (/verif/smt/native); the library models are validated on every run by differential execution")

_SMT_TRUST = ["z3 is sound for QF_BV", "the symbolic interpreter (symex.py) and its models of std/library functions are faithful for ASCII input "
              "(validated on every run by differential execution against the real functions; a mismatch makes the check inconclusive)",
              "inputs are ASCII (Rust byte semantics == char semantics); non-ASCII input is outside the claim"]

# --------------------------------------------------------------------------- C34
PROPERTIES["C34"] = dict(
    title="JUMBF URIs and manifest labels parse back to their parts",
    level="model_checking",
    engine="smt",
    technique="symbolic execution of the Rust source (syn AST -> bit-vector SMT over bounded byte strings) decided by z3; native replay of models",
    level_text=("Bounded symbolic checking of the label/URI helpers' SOURCE: every label is an arbitrary printable-ASCII string up to the "
                "stated capacity (an SMT variable per byte plus a length), the builders and parsers of sdk/src/jumbf/labels.rs are "
                "executed symbolically and z3 decides the round-trip equalities and the absence of panics (index out of range, "
                "unwrap, usize underflow) for ALL such strings at once -- the separators '/', '=', ':' and '__' inside labels are "
                "exactly the rare inputs sampling misses."),
    level_note=("Source-level encoding: the trusted base is the interpreter and its models of str::split/strip_prefix/format!/parse etc. "
                "(listed per query in evidence, validated differentially against the real functions on every run), and z3. Labels are "
                "ASCII without '/' and '=' (what the SDK generates); capacities are bounded (quick: 10 bytes, thorough: 24/20 bytes). "
                "Callers of these helpers in Claim/Store are outside."),
    scope="sdk/src/jumbf/labels.rs: to_*_uri builders, manifest_label_from_uri, assertion_label_from_uri, box_name_from_uri, to_relative_uri, to_absolute_uri, to_normalized_uri, manifest_label_to_parts",
    outside=["non-ASCII labels", "labels longer than the tier capacity", "Claim/Store call sites that build or consume these URIs",
             "assertion instance/version suffix helpers of claim.rs and assertions/labels.rs (regex-based)"],
    assumptions=_SMT_TRUST,
    harnesses=[],
    smt=dict(module="props_c34", K=6, N=24, timeout_ms=600000),
)

# --------------------------------------------------------------------------- C26
PROPERTIES["C26"] = dict(
    title="The network host allow-list is enforced on every request",
    level="model_checking",
    engine="smt",
    technique="symbolic execution of the Rust source (syn AST -> bit-vector SMT over bounded byte strings) decided by z3; native replay of models",
    level_text=("Bounded symbolic checking of the allow-list kernel's SOURCE: the pattern text, the URI's host, port and scheme are "
                "arbitrary bounded ASCII strings (SMT variables); HostPattern::new, HostPattern::matches, is_uri_allowed and "
                "RestrictedResolver::http_resolve are executed symbolically over a recording transport stub, and z3 decides for ALL "
                "patterns and URIs that a match -- and hence a request reaching the transport -- implies the documented rules "
                "(exact host or '*.'-wildcard sub-domain, equal port, equal scheme when given), plus absence of panics."),
    level_note=("Kernel-level and one-directional (nothing outside the allow-list passes; over-strict refusals are not reported). "
                "http::Uri is modelled by its host()/port()/scheme() accessors returning arbitrary strings of the stated charset; "
                "URI parsing, the redirect hop loop, resolver stacking in Context and the async twin are outside. Trusted: interpreter "
                "+ models (validated differentially on the repository's own HostPattern test vectors), z3."),
    scope="sdk/src/http/restricted.rs: HostPattern::new/matches, is_uri_allowed, RestrictedResolver::is_uri_allowed, <RestrictedResolver as SyncHttpResolver>::http_resolve",
    outside=["http::Uri parsing (userinfo, IDN, IPv6 brackets)", "resolver stacking in Context::build_default_*_resolver", "the async implementation",
             "redirect hops (each hop re-enters the same wrapper)", "patterns/hosts longer than the tier capacity or non-ASCII"],
    assumptions=_SMT_TRUST + ["Uri accessors return: host = non-empty [A-Za-z0-9.-]*, port = digits or None, scheme = http|https",
                              "stub: the wrapped transport records the call and returns Ok"],
    harnesses=[],
    smt=dict(module="props_c26", K=6, N=24, timeout_ms=600000),
)

# --------------------------------------------------------------------------- C29
PROPERTIES["C29"] = dict(
    title="Resource files are confined to the manifest directory",
    level="model_checking",
    engine="smt",
    technique="symbolic execution of the Rust source (syn AST -> bit-vector SMT over bounded byte strings) decided by z3; native replay of models",
    level_text=("Bounded symbolic checking of the LEXICAL confinement kernels' source: the identifier is an arbitrary printable-ASCII "
                "string up to the stated capacity; sanitize_archive_path (write side: ResourceStore::add, archive import) and "
                "uri_to_path (export side: Reader::to_folder) are executed symbolically and z3 decides for ALL identifiers that an "
                "accepted path is a clean relative path -- non-empty, not absolute, no backslash, no '.'/'..'/empty component -- so "
                "joining it to the root cannot leave the root lexically."),
    level_note=("Lexical kernels only. The read-side containment (resolve_within_root: canonicalisation, symbolic links, existence "
                "probing) is file-system behaviour and is outside solver-based checking. std::path::Path::components is a library model "
                "(unix semantics) validated differentially against the real function on every run; Windows prefixes are outside."),
    scope="sdk/src/utils/path_utils.rs sanitize_archive_path; sdk/src/utils/io_utils.rs uri_to_path",
    outside=["resolve_within_root / symlink handling / any file-system state", "Windows path semantics (drive/UNC prefixes)", "non-ASCII identifiers",
             "identifiers with more than 5 '/' or longer than the tier capacity"],
    assumptions=_SMT_TRUST + ["model: Path::components() with unix semantics (RootDir, CurDir only when leading, ParentDir, Normal; empty segments skipped)"],
    harnesses=[],
    smt=dict(module="props_c29", K=6, N=24, timeout_ms=900000),
)

# --------------------------------------------------------------------------- C10
PROPERTIES["C10"] = dict(
    title="Untrusted input never crashes, hangs or exhausts memory",
    level="model_checking",
    engine="kani",
    technique="bounded model checking of the compiled parsers (Kani/CBMC/CaDiCaL) + symbolic execution of the BMFF header parsers' SOURCE "
              "(syn AST -> bit-vector SMT, z3) with panic/overflow obligations",
    smt=dict(module="props_c10", extra_modules=["props_c10j"], K=6, N=24, timeout_ms=600000),
    level_text=("Bounded model checking of named header/chunk parsers over EVERY byte string up to the stated length (and every declared "
                "size up to u64::MAX where the format has one): CBMC discharges Kani's built-in checks on the compiled code -- no "
                "panic, no arithmetic overflow (dev profile), no out-of-bounds access, no unreachable!, and termination within the "
                "unwinding bound. Crafted size fields are exactly the rare inputs that sampling misses."),
    level_note=("Only the named kernels: JUMBF BoxReader::read_header and format sniffing (Kani), BMFF BoxHeaderLite::read, read_ftyp_box (24/32-byte "
                "streams and one 300/600-byte stream for the brand loop) and the small BMFF seek/skip helpers, and the JUMBF box readers "
                "BoxReader::read_desc_box, read_json_box, read_cbor_box with read_to_vec (40/64-byte streams, every start position, every declared "
                "u64 size) (Engine Z over an in-memory stream model; the Kani harnesses for them -- c10_bmff_ftyp_total, c10_png_chunk_scan_total -- "
                "time out after 30 min and are no longer run; the PNG chunk scanner is executed from source in C07/C08/C09/C12). Most of the property -- nesting limits, decompression bombs, CBOR/COSE/"
                "ASN.1/XML/ID3 parsing, allocation and time budgets, release-profile wrapping -- cannot be executed symbolically here and is "
                "outside the claim. Trusted: Kani, CBMC, CaDiCaL."),
    scope="BoxReader::read_header, read_desc_box, read_json_box, read_cbor_box, unread_bytes; io_utils read_to_vec; jumbf_io::container_from_stream; bmff_io BoxHeaderLite::read, read_ftyp_box, read_box_header_ext, meta_box_lacks_fullbox_header, _skip_bytes, skip_bytes_to; png_io get_png_chunk_positions; over Cursor<&[u8]>",
    outside=["every other parser of the SDK (CBOR, COSE, X.509/ASN.1, XML, ID3, TIFF IFDs, GIF blocks, RIFF, JPEG segments)",
             "recursion/nesting limits, decompression limits, allocation budgets, time budgets", "release-profile (wrapping) arithmetic",
             "inputs longer than the per-kernel bounds (16..64 bytes; 300/600 for the ftyp brand loop)",
             "JUMBF super-box recursion (read_super_box) and the brotli / embedded-file / uuid box readers"],
    assumptions=_TRUST,
    harnesses=[
        H("c10::c10_jumbf_read_header_total", unwind=26, timeout=600, what="all streams of 0..=24 bytes", bounds="24 bytes; --unwind 26",
          kernel=["BoxReader::read_header"]),
        H("c10::c10_format_sniff_total", unwind=20, timeout=900, what="all streams of 0..=16 bytes", bounds="16 bytes; --unwind 20",
          kernel=["jumbf_io::container_from_stream"]),
    ],
)

# --------------------------------------------------------------------------- C16
PROPERTIES["C16"] = dict(
    title="Merkle proofs accept exactly the committed leaves",
    level="model_checking",
    engine="smt",
    technique="symbolic execution of the Rust source (syn AST) with hashes as terms of an algebraic datatype (idealised hash), decided by z3; native replay with real SHA-256",
    level_text=("Bounded symbolic checking of the Merkle tree SOURCE: C2PAMerkleTree::from_leaves/generate_tree/get_proof_by_index/to_layout and "
                "MerkleMap::check_merkle_tree/hash_check are executed symbolically with digests as terms of the datatype Hash = leaf | node(l, r) "
                "(concat_and_hash is the constructor), so that z3 decides -- for every leaf count up to the bound, every stored row "
                "(max_proofs), EVERY leaf index (symbolic), arbitrary leaf values, an arbitrary candidate value and an arbitrary adversarial "
                "proof of up to 3-4 arbitrary digests -- that the generated proof verifies and that nothing but the committed leaf value verifies "
                "at that index.  Odd-node promotion and index/row arithmetic are exactly where sampled tests miss."),
    level_note=("Idealised hash: structural equality of digest terms (collision-free); leaf-level values are leaf(.) terms and can never equal "
                "node(.,.) (second-preimage resistance).  Leaf counts are enumerated up to 6 (quick) / 16 (thorough); the leaf index, values and "
                "proofs are symbolic.  BmffHash's use of these routines on real files (mdat chunking, CBOR) is outside.  Counterexamples are "
                "replayed on the real code with real SHA-256 through the native runner."),
    scope="sdk/src/utils/merkle.rs C2PAMerkleTree::{from_leaves, generate_tree, get_proof_by_index, to_layout}; sdk/src/assertions/bmff_hash.rs MerkleMap::{check_merkle_tree, hash_check}",
    outside=["leaf counts above the tier bound", "SHA-2 itself (idealised)", "BmffHash verification of files, MerkleAccumulator (C17)", "hash_leaves=true path of from_leaves"],
    assumptions=["z3 is sound (theories of algebraic datatypes and bit-vectors)", "the symbolic interpreter (symex.py) is faithful for the constructs it accepts (fails closed otherwise)",
                 "stub: concat_and_hash(a, b) = node(a, b); vec_compare = structural equality", "leaf-level digests are leaf(.) terms (never equal to an inner node digest)"],
    harnesses=[],
    smt=dict(module="props_c16", K=6, N=24, timeout_ms=300000),
)

# --------------------------------------------------------------------------- C13
PROPERTIES["C13"] = dict(
    title="Range hashing equals the digest of exactly the selected bytes",
    level="model_checking",
    engine="smt",
    technique="symbolic execution of the complete Rust source of the hashing routine (syn AST -> bit-vector SMT) with a recorder digest, decided by z3; native replay with real SHA-256 through a hook",
    level_text=("Bounded symbolic checking of the SOURCE of hash_stream_by_alg_with_progress_impl -- the whole function, both the sequential "
                "branch and the read-ahead pipeline branch: the data (content and length), every range's start and length (FULL u64), and the "
                "internal chunk size are SMT variables; the digest is a recorder, so z3 decides for all of them at once that the bytes fed to the "
                "digest are exactly the reference selection (exclusion or inclusion, sorted by start, overlapping/adjacent/empty ranges), that a "
                "range reaching past the end is rejected, that nothing panics (overflow, underflow, index) and that progress steps stay within "
                "1..=total.  u64 extremes and chunk-boundary effects are exactly what sampled tests miss."),
    level_note=("Bounds: data up to 4 (quick) / 6 (thorough) bytes, 0-2 ranges, chunk size 1..=data bound; BMFF offset markers are not yet "
                "covered.  Stubs (part of the claim): recorder digest instead of SHA-2, in-memory stream, range_set::RangeSet by its set-difference "
                "specification, worker thread executed at spawn with a one-slot mailbox (the hand-off is strict, so the update sequence is "
                "schedule-independent; real interleavings are outside).  Counterexamples are replayed through a cfg-guarded hook on the real "
                "function with real SHA-256, RangeSet and threads."),
    scope="sdk/src/utils/hash_utils.rs hash_stream_by_alg_with_progress_impl (all of it), HashRange accessors",
    outside=["SHA-2 itself", "thread scheduling of the read-ahead pipeline", "BMFF v2 offset markers", "more than 2 ranges, data longer than the tier bound",
             "the callers (DataHash/BoxHash/BmffHash verification)"],
    assumptions=["z3 is sound for QF_BV", "the symbolic interpreter (symex.py) is faithful for the constructs it accepts (fails closed otherwise)",
                 "model: range_set::RangeSet::remove_range is set difference on a sorted list of disjoint inclusive ranges",
                 "model: the digest is a function of the concatenation of the byte strings passed to update()"],
    harnesses=[],
    smt=dict(module="props_c13", K=6, N=24, timeout_ms=900000),
)

# --------------------------------------------------------------------------- C17
PROPERTIES["C17"] = dict(
    title="BMFF mdat hashing is independent of how the payload is chunked",
    level="model_checking",
    engine="smt",
    technique="symbolic execution of the Rust source (syn AST -> bit-vector SMT over bounded byte strings) with an identity-recorder digest, decided by z3; native replay with real SHA-256",
    level_text=("Bounded symbolic checking of the SOURCE of MerkleAccumulator::add_merkle_leaf -- the routine every incremental caller "
                "(Builder::hash_bmff_mdat_bytes) goes through: the mdat bytes, the fixed leaf size and the SPLIT POINTS are SMT variables; "
                "the routine is executed symbolically once on the whole mdat and once per piece, and z3 decides for all of them that the "
                "recorded leaves and the buffered remainder are the same.  A split inside the 8-byte box header or inside a leaf is "
                "exactly the schedule sampled tests do not try."),
    level_note=("Kernel-level, fixed-leaf-size mode: payload up to 6 (quick) / 8 (thorough) bytes, leaf size 1..=3/4 bytes (the routine only "
                "compares and subtracts sizes), one split point (quick) or two (thorough), standard and large mdat headers.  Models: the two "
                "maps hold one mdat id; hash_by_alg is the identity (equal leaves <=> equal digest inputs); Cursor is an in-memory stream.  "
                "What BmffHash/Builder/Reader do with the leaves (sign_embeddable, validation of the asset) is outside."),
    scope="sdk/src/utils/merkle.rs MerkleAccumulator::add_merkle_leaf",
    outside=["the variable-leaf mode (one leaf per call: chunking-dependent by design)", "several interleaved mdat ids", "Builder/BmffHash/Reader around the accumulator",
             "payloads and leaf sizes beyond the tier bound"],
    assumptions=["z3 is sound for QF_BV", "the symbolic interpreter (symex.py) is faithful for the constructs it accepts (fails closed otherwise)",
                 "model: HashMap/BTreeMap restricted to one key (contains_key/get/get_mut/insert/remove/entry.and_modify.or_insert)",
                 "model: hash_by_alg is injective (identity recorder)"],
    harnesses=[],
    smt=dict(module="props_c17", K=6, N=24, timeout_ms=1200000),
)

# --------------------------------------------------------------------------- C23
PROPERTIES["C23"] = dict(
    title="Cancellation is always reported as cancellation",
    level="model_checking",
    engine="smt",
    technique="symbolic execution of the Rust source (syn AST -> bit-vector SMT) of the checkpoint and of the hashing loops with a symbolic cancelling callback, decided by z3; native replay through hooks",
    level_text=("Bounded symbolic checking of the two kernels where cancellation and step numbers are decided: Context::check_progress (callback "
                "verdict and cancel flag symbolic: fails with OperationCancelled exactly when asked to stop) and the hashing loops of "
                "hash_stream_by_alg_with_progress_impl, both branches, with a callback that says stop at a SYMBOLIC checkpoint index: z3 "
                "decides for all data, ranges, chunk sizes and stop points that hashing then fails with the callback's own error, that no "
                "further checkpoint is reached, and that steps are 1, 2, 3... within a non-zero total."),
    level_note=("Kernel-level.  The property is mostly about dozens of call sites in Store/Claim/Builder/Reader forwarding the checkpoint's "
                "error; those async-generic pipelines cannot be encoded and are outside.  cancel() from another thread is outside (no "
                "concurrency).  Stubs as for C13 (recorder digest, in-memory stream, RangeSet by specification, thread-at-spawn)."),
    scope="sdk/src/context.rs Context::check_progress; sdk/src/utils/hash_utils.rs hash_stream_by_alg_with_progress_impl (progress/cancellation behaviour)",
    outside=["every other progress call site (Store, Claim::verify_hash_binding, BmffHash/BoxHash/DataHash verify_*_with_progress, Builder, Reader)",
             "Context::cancel from another thread", "phase bookkeeping (ProgressPhase) across operations"],
    assumptions=["z3 is sound for QF_BV", "the symbolic interpreter (symex.py) is faithful for the constructs it accepts (fails closed otherwise)",
                 "stubs of C13 (recorder digest, stream, RangeSet, thread-at-spawn + one-slot channel); AtomicBool::load returns the flag; log macros have no effect"],
    harnesses=[],
    smt=dict(module="props_c23", K=6, N=24, timeout_ms=600000),
)

# --------------------------------------------------------------------------- C01
PROPERTIES["C01"] = dict(
    title="Tamper evidence: signed asset content cannot change without detection",
    level="model_checking",
    engine="smt",
    technique="symbolic execution of the Rust source (syn AST -> bit-vector SMT) of DataHash generation/verification, vec_compare and the range-hashing routine with the digest replaced by a recorder of its input (ideal-hash assumption), decided by z3; native replay with real SHA-256",
    level_text=("Bounded symbolic checking of the data-hash binding SOURCE: a DataHash is generated over original data d0 and verified against "
                "received data d1 (both symbolic byte strings of independent length), with symbolic exclusion ranges and internal chunk size.  "
                "z3 decides for ALL of them that verification succeeds IF AND ONLY IF the non-excluded bytes of d1 equal those of d0: every "
                "change, insertion or truncation of bound content is reported as a hash mismatch, changes inside exclusions are tolerated; "
                "vec_compare is byte-string equality (no prefix/length confusion); a remote hash is never reported verified."),
    level_note=("Kernel level, under the IDEAL-HASH assumption: the digest object is a recorder of the bytes fed to it (SHA-2 itself is not "
                "encodable), so 'equal digests' means 'equal digest inputs'.  Data up to 4 (quick) / 5 (thorough) bytes, 0..1 (2 in thorough) "
                "exclusion ranges, both branches of the hashing routine in thorough.  The claim signature, the binding of the assertion into the "
                "claim (hashed URIs), BMFF/box hashes (C12, C17 cover their kernels) and the per-format handlers are outside."),
    scope="sdk/src/assertions/data_hash.rs DataHash::gen_hash_from_stream_with_progress, verify_stream_hash_with_progress, is_remote_hash; sdk/src/utils/hash_utils.rs vec_compare, hash_stream_by_alg_with_progress(_impl)",
    outside=["COSE signature and claim verification (crypto)", "assertion hashed-URI binding inside the claim (CBOR)", "BmffHash / BoxHash verification paths",
             "collisions of the real hash functions (ideal-hash assumption)", "data longer than the tier bound"],
    assumptions=["z3 is sound for QF_BV", "the symbolic interpreter (symex.py) is faithful for the constructs it accepts (fails closed otherwise)",
                 "ideal hash: the digest is a recorder of its input; models of C13 (in-memory stream, RangeSet by specification, worker thread at spawn)"],
    harnesses=[],
    smt=dict(module="props_c01", K=6, N=24, timeout_ms=900000),
)

# --------------------------------------------------------------------------- C07 / C08 / C09 (PNG read/write kernel)
_PNG_SCOPE = ("sdk/src/asset_handlers/png_io.rs <PngIO as CAIWriter>::write_cai, ::remove_cai_store_from_stream, ::get_object_locations_from_stream, "
              "<PngIO as CAIReader>::read_cai, get_cai_data, get_png_chunk_positions, PngChunkPos::end; sdk/src/utils/io_utils.rs patch_stream, stream_len, "
              "<R as ReaderUtils>::read_to_vec")
_PNG_TECH = ("symbolic execution of the Rust source (syn AST -> bit-vector SMT) of the PNG handler's write/read/remove/location routines over in-memory "
             "stream models, for every valid PNG within the bound, decided by z3; native replay on the real handler")
_PNG_OUT = ["every other format (JPEG, BMFF, TIFF, RIFF, GIF, SVG, MP3, FLAC, JPEG XL, c2pa): third-party container crates or parsers outside the encoder",
            "PNG files longer than the tier bound, stores longer than 3-4 bytes (the routines copy the store bytes verbatim; its length only enters the chunk header)",
            "file-path entry points (save_cai_store etc.: file I/O around the same stream routines)", "CRC values (never checked by the SDK's reader)"]
_PNG_ASSUME = ["z3 is sound for QF_BV", "the symbolic interpreter (symex.py) is faithful for the constructs it accepts (fails closed otherwise)",
                 "models: std::io::Cursor (full reads, overwrite/extend writes), std::io::copy, Read::take/read_to_end/into_inner, byteorder readers; png_pong chunk encoder = be32(len) ++ name ++ data ++ 4 unconstrained CRC bytes (validated against the real handler on concrete PNGs every run)",
                 "input description: a valid PNG = signature, chunks that tile the file, IHDR first (and only there), four-letter chunk types, first IEND ends the file, at most one caBX"]
PROPERTIES["C07"] = dict(
    title="Embedding round trip: write, read, replace and remove manifest stores",
    level="model_checking", engine="smt", technique=_PNG_TECH,
    level_text=("Bounded symbolic checking of the PNG handler SOURCE (one of the writable formats): the asset is the PNG signature followed by arbitrary "
                "bytes constrained only by an input-side validity description (chunk lengths, names, data, CRC bytes and the position of an existing "
                "manifest chunk all symbolic), the store is an arbitrary byte string.  z3 decides for ALL such assets and stores that write_cai "
                "succeeds and read_cai on the written bytes returns exactly the store (read_cai refuses more than one caBX, so writing replaces), "
                "and that remove_cai_store_from_stream succeeds, leaves no manifest and an asset the scanner still accepts."),
    level_note=("PNG only.  Assets of 8 + 50 (quick) / 54 (thorough) bytes = up to 4 chunks; stores up to 3 / 4 bytes, and stores up to 16 / 40 bytes "
                "with arbitrary content on a two-chunk asset.  The second write of a "
                "write/write sequence is covered because the input may already carry a manifest chunk anywhere after IHDR."),
    scope=_PNG_SCOPE, outside=_PNG_OUT, assumptions=_PNG_ASSUME, harnesses=[],
    smt=dict(module="props_c07", K=6, N=24, timeout_ms=1500000),
)
PROPERTIES["C08"] = dict(
    title="Same-size manifest replacement only changes the reported manifest region",
    level="model_checking", engine="smt", technique=_PNG_TECH,
    level_text=("Bounded symbolic checking of the PNG handler SOURCE: for ALL valid PNGs and stores in the bound, after write_cai the object locations "
                "report exactly one manifest region, inside the file, holding the chunk header and the store bytes, and the other regions tile the "
                "rest of the file without overlap; two stores of the SAME length written into the same asset give files that are identical "
                "outside that region (two symbolic executions of write_cai compared byte for byte)."),
    level_note=("PNG only.  Assets of 8 + 42 (quick) / 52 (thorough) bytes = up to 3 / 4 chunks (the two-run same-size query: 42 bytes in both tiers; existing-manifest locations: 50 / 62 bytes); stores up to 3 bytes.  The store-level placeholder/final "
                "write flow (store.rs) that relies on this is outside."),
    scope=_PNG_SCOPE, outside=_PNG_OUT + ["store.rs start_save_stream / finish_save_stream"], assumptions=_PNG_ASSUME, harnesses=[],
    smt=dict(module="props_c08", K=6, N=24, timeout_ms=1500000),
)
PROPERTIES["C09"] = dict(
    title="Embedding and removing a manifest preserves the media content",
    level="model_checking", engine="smt", technique=_PNG_TECH,
    level_text=("Bounded symbolic checking of the PNG handler SOURCE against an input-side oracle (the file with its caBX chunk cut out, computed "
                "from the chunk walk of the bytes): for ALL valid PNGs and stores in the bound, removal yields exactly the asset without its manifest "
                "chunk, and embedding or replacing yields a file that, with the new chunk (placed directly after IHDR) cut out, is byte-identical "
                "to the original without its old manifest chunk -- every other chunk keeps its bytes and order.  Thorough: "
                "remove(write(x, s)) == remove(x) executed end to end."),
    level_note=("PNG only (no absolute offsets exist in PNG, so the offset clause has no counterpart here).  Assets of 8 + 42 (quick) / 52 (thorough) bytes "
                "= up to 3 / 4 chunks for the byte-exact embed queries (split by the position of the existing manifest chunk, exhaustive cases); 8 + 50 / 54 bytes "
                "= 4 chunks for the removal query and the length-only embed query; stores up to 3 bytes; the two-run query remove(write(x)) (thorough) uses 3 chunks."),
    scope=_PNG_SCOPE, outside=_PNG_OUT, assumptions=_PNG_ASSUME, harnesses=[],
    smt=dict(module="props_c09", K=6, N=24, timeout_ms=1500000),
)

# --------------------------------------------------------------------------- C15
PROPERTIES["C15"] = dict(
    title="Embeddable signing returns bytes of exactly the placeholder size",
    level="model_checking",
    engine="smt",
    technique="symbolic execution of the Rust source (syn AST -> bit-vector SMT) of Builder::sign_embeddable and Builder::placeholder with every surrounding step (store building, signing, composing, hashing) replaced by unconstrained, possibly failing stubs, decided by z3; replay through the public API",
    level_text=("Bounded symbolic checking of the two SOURCE functions that implement the placeholder contract: Builder::placeholder records the length "
                "of the JUMBF it composes and hands out, and Builder::sign_embeddable brings the signed JUMBF to that length before composing.  The "
                "signed JUMBF length, the recorded length and the outcome of every surrounding step are symbolic; z3 decides for ALL of them that "
                "an Ok result for a data-hash (non-BMFF) format has EXACTLY the recorded length, that no format ever gets a shorter one, and that "
                "placeholder() records exactly the length it composed."),
    level_note=("Kernel level: the length logic only.  Store::sign_manifest, get_placeholder, get_composed_manifest, to_store, hashing and the "
                "signer are stubs returning arbitrary lengths / failures (assumption: the composed length depends on the JUMBF length and the "
                "format only).  BMFF is exempt from 'never longer' by the SDK's documented design (the caller reserves room for Merkle leaves).  "
                "The older Store::get_data_hashed_embeddable_manifest path, real signing and read-back validity are outside."),
    scope="sdk/src/builder.rs Builder::sign_embeddable, Builder::placeholder",
    outside=["Builder::sign_data_hashed_embeddable / Store::get_data_hashed_embeddable_manifest (whole pipeline with real signing)",
             "that a patched asset reads back Valid", "the composed (format-wrapped) length itself"],
    assumptions=["z3 is sound for QF_BV", "the symbolic interpreter (symex.py) is faithful for the constructs it accepts (fails closed otherwise)",
                 "stubs: every called Builder/Store/Signer/handler step returns an arbitrary length or fails; composing depends on the JUMBF length only"],
    harnesses=[],
    smt=dict(module="props_c15", K=6, N=24, timeout_ms=600000),
)

# --------------------------------------------------------------------------- C14
PROPERTIES["C14"] = dict(
    title="Reserved-size padding is exact and signing succeeds for any ample reserve",
    level="model_checking",
    engine="smt",
    technique="symbolic execution of the Rust source (syn AST -> bit-vector SMT) of pad_cose_sig and DataHash::pad_to_size over a size model of the CBOR serialiser, decided by z3; native replay",
    level_text=("Bounded symbolic checking of the two padding routines' SOURCE.  The unpadded size and the reserved size are symbolic 64-bit "
                "integers, byte vectors are abstracted to their length (the routines never look at contents) and the CBOR serialiser is replaced "
                "by its size function (1/2/3/5/9-byte length prefixes), validated on every run against the real serialiser.  z3 decides for ALL "
                "unpadded sizes and ALL reserves in the bound that a reserve equal to the unpadded size or at least 5 bytes above it is accepted, "
                "that an accepted reserve is padded to EXACTLY the reserved size, and that nothing panics (arithmetic, unwinding and recursion "
                "bounds are obligations).  The CBOR prefix boundaries 24, 256 and 65536 are inside the bound for pad_cose_sig."),
    level_note=("pad_cose_sig: unpadded size 16..2^20, reserve up to +2^17 (quick) / +2^24 (thorough); two header shapes (empty, one unrelated entry).  "
                "DataHash::pad_to_size pushes one byte per iteration, so its claim is bounded to +40 (quick) / +80 (thorough) bytes from concrete "
                "starting pads (0, 20 / 0, 10, 23, 200): the 65536 boundary is outside for the data-hash routine.  Reserves 1..4 bytes above the "
                "unpadded size are unrepresentable in CBOR (smallest entry is 5 bytes) and an error is required there.  The store-level equal-size "
                "re-serialisation check and real signing are outside (whole pipeline)."),
    scope="sdk/src/crypto/cose/sign.rs pad_cose_sig; sdk/src/assertions/data_hash.rs DataHash::pad_to_size",
    outside=["Builder::sign with a custom reserve (whole pipeline with real signing)", "store.rs start_save_stream size re-check",
             "DataHash padding beyond the tier bound (65536-byte boundary)", "unprotected headers with 24 or more entries (map header grows)"],
    assumptions=["z3 is sound for QF_BV", "the symbolic interpreter (symex.py) is faithful for the constructs it accepts (fails closed otherwise)",
                 "model: CBOR size function for byte strings and text labels shorter than 24 characters (validated against coset / c2pa_cbor on the vectors of every run)"],
    harnesses=[],
    smt=dict(module="props_c14", K=6, N=24, timeout_ms=900000),
)

# --------------------------------------------------------------------------- C12
PROPERTIES["C12"] = dict(
    title="Hash-binding layout maps are ordered, disjoint and cover the file",
    level="model_checking",
    engine="smt",
    technique="symbolic execution of the Rust source (syn AST -> bit-vector SMT) of the PNG box-map builder over an in-memory stream model, decided by z3; native replay",
    level_text=("Bounded symbolic checking of the PNG box-map SOURCE: the file is the PNG signature followed by arbitrary bytes (chunk lengths, "
                "names, CRCs and trailing data all symbolic); get_png_chunk_positions and PngIO::get_box_map are executed symbolically and z3 "
                "decides for ALL such files that an accepted map is ordered, contiguous from offset 0, within the file -- and whether it covers "
                "the whole file.  Trailing data and odd chunk lengths are exactly the structural mutants the property asks about."),
    level_note=("PNG only (one of the five box-hash formats); files of 8 + 28 (quick) / 34 (thorough) bytes, at most 3 chunks.  JPEG, GIF, JPEG XL and "
                "sidecar maps, and get_object_locations_from_stream, are outside (third-party parsers, not encodable).  The coverage clause has an "
                "OPEN known finding (bytes after IEND); the twin query restricted to files that end at IEND proves coverage there.  Models: "
                "in-memory stream + byteorder readers; String::from_utf8 of the chunk name (ASCII valid, otherwise open)."),
    scope="sdk/src/asset_handlers/png_io.rs get_png_chunk_positions, <PngIO as AssetBoxHash>::get_box_map, PngChunkPos::end",
    outside=["JPEG / GIF / JPEG XL / sidecar box maps", "get_object_locations_from_stream for every format", "files longer than the tier bound"],
    assumptions=["z3 is sound for QF_BV", "the symbolic interpreter (symex.py) is faithful for the constructs it accepts (fails closed otherwise)",
                 "model: std::io::Cursor semantics for the stream (full reads), byteorder big-endian readers"],
    harnesses=[],
    smt=dict(module="props_c12", K=6, N=24, timeout_ms=900000),
)

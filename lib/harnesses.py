"""Table of Kani harnesses per property: name (fully qualified inside the crate
c2pa-verif-kani), tiers, CBMC bounds, budget, and the human-readable statement of
what is encoded (echoed into evidence).  Nothing here is measured; all counts in
evidence come from parsing the solver's output."""

Q = ("quick", "thorough")
T = ("thorough",)


def H(name, tiers=Q, unwind=None, unwindset=None, timeout=600, mem_gb=14, stubbing=False,
      what="", bounds="", kernel=(), assumes=(), finding=None, solver=None):
    return dict(name=name, tiers=tiers, unwind=unwind, unwindset=unwindset or [], timeout=timeout,
                mem_gb=mem_gb, stubbing=stubbing, what=what, bounds=bounds, kernel=list(kernel),
                assumes=list(assumes), finding=finding, solver=solver)


PROPERTIES = {}

# --------------------------------------------------------------------------- C27
PROPERTIES["C27"] = dict(
    title="Redirects never reach internal addresses or leak credentials",
    level="model_checking",
    level_text=("Bounded model checking of the compiled classifier: CBMC decides the equality 'implementation == prefix table "
                "of the property' for ALL 2^32 IPv4 and ALL 2^128 IPv6 addresses (complete, loop-free), and the host-string "
                "helpers for every ASCII host up to the stated length. This is the right level because the risky inputs are "
                "single prefixes/masks (one /10, one mapped form) that sampling does not hit."),
    level_note=("Kernel-level claim: covers the address/host classification every redirect target passes through, not the "
                "Location-header URL parsing, the hop loop or header stripping (http/url crates: heap-heavy, did not scale). "
                "Trusted: Kani MIR->goto translation, CBMC, CaDiCaL; oracle table transcribed from the property text."),
    scope=("Kernel-level: the address classifier that every redirect target passes through "
           "(ipv4_is_non_global / ipv6_is_non_global / ip_is_non_global, with the std::net predicates "
           "as compiled) and the host-string helpers (normalize_host, looks_like_obfuscated_ip)."),
    outside=["URL parsing of the Location header (url::Url::join, http::Uri parsing)",
             "the redirect loop / 10-hop limit and header stripping over http::HeaderMap",
             "IPv4-compatible and NAT64 IPv6 forms (not required by the property text)"],
    assumptions=["Kani's MIR->goto translation, CBMC 6.11 and CaDiCaL are sound",
                 "c2pa built with default-features=false, features=[rust_native_crypto] (kernels are crypto-independent)",
                 "oracle = prefix table transcribed from the property statement"],
    harnesses=[
        H("c27::c27_ipv4_all_addresses", what="all 2^32 IPv4 addresses vs. the prefix table of the property",
          bounds="complete: 4 symbolic octets, loop-free", kernel=["ipv4_is_non_global"]),
        H("c27::c27_ipv6_all_addresses", what="all 2^128 IPv6 addresses incl. ::ffff:a.b.c.d mapped forms",
          bounds="complete: 8 symbolic segments; any::<[u16;8]> loop unwound", kernel=["ipv6_is_non_global", "ipv4_is_non_global"]),
        H("c27::c27_ip_dispatch", what="IpAddr dispatch sends each family to its classifier",
          bounds="complete", kernel=["ip_is_non_global"]),
    ],
)

# --------------------------------------------------------------------------- C04
_C04_UNW = dict(unwind=4, unwindset=["memcmp.0:31"])
_C04_ASSUME = ["every status code is an ASCII string of length 0..=29 (29 = longest code the decision compares against)",
               "oracle is one-directional (Valid/Trusted only if ...): a stricter implementation is not reported"]


def _c04(name, tiers, shape, timeout=1500, mem_gb=16):
    return H("c04::" + name, tiers=tiers, timeout=timeout, mem_gb=mem_gb,
             what="all assignments of arbitrary ASCII strings (len 0..=29) to the status-code slots of shape " + shape,
             bounds="shape %s (success, informational, failure | per-delta success, failure); code length <= 29; --unwind 4, memcmp 31" % shape,
             kernel=["ValidationResults::validation_state", "is_tolerated_manifest_failure_code", "StatusCodes::add_*_val",
                     "ValidationResults::add_active_manifest/add_ingredient_delta"],
             assumes=_C04_ASSUME, **_C04_UNW)


PROPERTIES["C04"] = dict(
    title="Validation state is derived soundly from validation codes",
    level="model_checking",
    level_text=("Bounded model checking of the compiled decision function: for each fixed shape of status lists, CBMC decides for "
                "ALL assignments of arbitrary ASCII strings (length 0..=29) to every status-code slot, and all presence flags, that "
                "Valid/Trusted are returned only when the property's conditions hold on the raw bytes. The decision is a function "
                "over a combinatorial domain where one particular code in one particular list matters; the solver covers them all."),
    level_note=("Kernel-level: ValidationResults::validation_state + builders + add_status routing. Not covered: from_store "
                "filtering, Reader::validation_state legacy fallback (needs a Reader), failure-summary formatting. Shapes are "
                "bounded (<=3 success, <=1 informational, <=2 failures per list, <=2 deltas). Trusted: Kani, CBMC, CaDiCaL; oracle "
                "transcribed from the property text, one-directional."),
    scope="ValidationResults::validation_state over status lists built with the public builders and with add_status",
    outside=["ValidationResults::from_store", "Reader::validation_state legacy status-list fallback", "ValidationFailureSummary formatting",
             "lists longer than the shapes enumerated", "codes longer than 29 bytes / non-ASCII codes"],
    assumptions=["Kani's MIR->goto translation, CBMC 6.11 and CaDiCaL are sound",
                 "c2pa built with default-features=false, features=[rust_native_crypto] (kernel is crypto-independent)"],
    harnesses=[
        _c04("c04_s0_i0_f0", Q, "(0,0,0|-)", timeout=300),
        _c04("c04_s2_i0_f0", T, "(2,0,0|-)"),
        _c04("c04_s2_i0_f1", Q, "(2,0,1|-)"),
        _c04("c04_s3_i0_f0", Q, "(3,0,0|-)"),
        _c04("c04_s3_i1_f0", T, "(3,1,0|-)"),
        _c04("c04_s3_i0_f1", T, "(3,0,1|-)"),
        _c04("c04_s3_i0_f2", T, "(3,0,2|-)"),
        _c04("c04_s3_i1_f2", T, "(3,1,2|-)"),
        _c04("c04_s2_i0_f0_d01", Q, "(2,0,0|0,1)"),
        _c04("c04_s3_i0_f0_d01", T, "(3,0,0|0,1)"),
        _c04("c04_s3_i1_f1_d11", T, "(3,1,1|1,1)"),
        _c04("c04_s3_i0_f0_d02", T, "(3,0,0|0,2)"),
        _c04("c04_s3_i1_f2_d12", T, "(3,1,2|1,2)", timeout=3000),
        _c04("c04_s2_i0_f0_dd11", T, "(2,0,0|0,1|0,1)"),
        _c04("c04_s3_i0_f1_dd01", T, "(3,0,1|0,0|0,1)"),
        _c04("c04_s3_i0_f0_dd12", T, "(3,0,0|0,1|0,2)", timeout=3000),
        _c04("c04_s3_i0_f0_d10", Q, "(3,0,0|1,0)"),
        H("c04::c04_add_status_active", tiers=Q, timeout=1500, mem_gb=20,
          what="two required success codes + 1 status with symbolic code (ASCII, len<=29) and symbolic kind, all routed by "
               "ValidationResults::add_status to the active manifest",
          bounds="1 symbolic status; --unwind 5, memcmp 31",
          kernel=["ValidationResults::add_status", "StatusCodes::add_status", "ValidationResults::validation_state"],
          assumes=_C04_ASSUME, unwind=5, unwindset=["memcmp.0:31"]),
        H("c04::c04_add_status_ingredient", tiers=T, timeout=1500, mem_gb=20,
          what="Trusted-worthy active manifest + 1 status with symbolic code and kind routed by add_status to an ingredient delta",
          bounds="1 symbolic status, 1 ingredient URI; --unwind 5, memcmp 31",
          kernel=["ValidationResults::add_status", "StatusCodes::add_status", "ValidationResults::validation_state"],
          assumes=_C04_ASSUME, unwind=5, unwindset=["memcmp.0:31"]),
        H("c04::c04_success_codes_on_delta_do_not_count", tiers=T, timeout=900, mem_gb=16,
          what="required success codes placed on an ingredient delta, one symbolic success code on the active manifest",
          bounds="1 symbolic status; --unwind 5, memcmp 31",
          kernel=["ValidationResults::validation_state"], assumes=_C04_ASSUME,
          unwind=5, unwindset=["memcmp.0:31"]),
    ],
)

# --------------------------------------------------------------------------- C11
_TRUST = ["Kani's MIR->goto translation, CBMC 6.11 and CaDiCaL are sound",
          "c2pa built with default-features=false, features=[rust_native_crypto] (kernels are crypto-independent; pdf feature off)"]

PROPERTIES["C11"] = dict(
    title="The reader's verdict does not depend on a wrong format hint",
    level="model_checking",
    level_text=("Bounded model checking of the two functions through which Reader::with_stream chooses the handler family: for ALL "
                "streams of 0..=24 arbitrary bytes (covers the 16-byte sniff window and the ID3->fLaC peek) and every hint family, "
                "CBMC decides that detection is total, rewinds the stream, recognises every documented magic number, and that the "
                "format handed to the handler lookup is of the detected family whatever the hint says."),
    level_note=("Kernel-level: container_from_stream + format_from_stream. What the chosen handler and the Store then do with the "
                "stream is outside (heap-heavy, not executable symbolically). container_from_format (lazy_static HashMap) is stubbed "
                "by the family the harness chose for the hint; in native playback the real registry is used."),
    scope="jumbf_io::container_from_stream and jumbf_io::format_from_stream over Cursor<&[u8]>",
    outside=["everything Reader::with_stream does after choosing the handler", "streams whose identifying bytes lie beyond offset 24 (ID3 tags longer than 10 bytes)",
             "the registry contents (container_from_format) itself"],
    assumptions=_TRUST + ["oracle magic-number table transcribed from the property text; inputs matching two signatures at once are left unspecified"],
    harnesses=[
        H("c11::c11_detection_total_and_rewinds", unwind=26, timeout=900,
          what="all byte strings of length 0..=24 as stream content", bounds="24 bytes; --unwind 26",
          kernel=["jumbf_io::container_from_stream"]),
        H("c11::c11_hint_never_overrides_detection", unwind=26, timeout=900, stubbing=True,
          what="all byte strings of length 0..=24 x 13 hints (11 container ids, one MIME type, one unknown)",
          bounds="24 bytes; 13 hints; --unwind 26", kernel=["jumbf_io::format_from_stream", "jumbf_io::container_from_stream"],
          assumes=["stub: container_from_format(hint) returns the family the harness chose for that hint"]),
    ],
)

# --------------------------------------------------------------------------- C35
PROPERTIES["C35"] = dict(
    title="Results do not depend on stream chunking, and I/O errors are never hidden",
    level="model_checking",
    level_text=("Bounded model checking of the shared stream kernels under a symbolic I/O schedule: the harness stream returns a "
                "solver-chosen number of bytes (>=1) on every read and can fail at a solver-chosen call index; CBMC decides for ALL "
                "schedules, ALL contents up to 24 bytes and ALL positions that the result equals the full-read result and that an "
                "injected error is never turned into Ok."),
    level_note=("Kernel-level: format sniffing (container_from_stream) and the io_utils helpers (stream_len, read_to_vec). The "
                "per-format handlers, Store and signing are outside (not executable symbolically). Trusted: Kani, CBMC, CaDiCaL; "
                "the SymStream model of Read+Seek (short reads >= 1 byte, ErrorKind::Other failures)."),
    scope="jumbf_io::container_from_stream, io_utils::stream_len, ReaderUtils::read_to_vec driven by a symbolic-schedule stream",
    outside=["asset handler read loops, BoxReader, Store, Builder::sign", "write-side short writes", "streams longer than 24 bytes"],
    assumptions=_TRUST + ["a read never returns 0 bytes while data remains (Read contract)", "failures are io::ErrorKind::Other"],
    harnesses=[
        H("c35::c35_sniff_chunking_independent", unwind=26, timeout=1200,
          what="all streams of 0..=24 bytes x all short-read schedules", bounds="24 bytes, every read returns symbolic k in 1..=requested; --unwind 26",
          kernel=["jumbf_io::container_from_stream"]),
        H("c35::c35_sniff_id3_peek_chunking_independent", unwind=26, timeout=1200,
          what="ID3-tagged streams of 10..=24 bytes, first read full, later reads short", bounds="24 bytes; --unwind 26",
          kernel=["jumbf_io::container_from_stream"]),
        H("c35::c35_sniff_fault_never_invents", unwind=26, timeout=1200,
          what="all streams of 0..=24 bytes x failure injected at call index 0..7", bounds="24 bytes, 8 fault points; --unwind 26",
          kernel=["jumbf_io::container_from_stream"]),
        H("c35::c35_stream_len_preserves_position_and_propagates_errors", unwind=26, timeout=600,
          what="all lengths 0..=24 x all u64 positions x failure at seek index 0..2", bounds="complete for the seek logic; --unwind 26",
          kernel=["io_utils::stream_len"]),
        H("c35::c35_read_to_vec_chunking_and_errors", unwind=12, timeout=1800,
          what="streams of 0..=8 bytes x position 0..=9 x all u64 request sizes x all short-read schedules x failure at call 0..5",
          bounds="8 bytes; --unwind 12", kernel=["ReaderUtils::read_to_vec", "io_utils::safe_vec"]),
    ],
)
